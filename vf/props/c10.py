"""C10 - CAM and VAM generation follow the timing and trigger rules of their standards."""
import z3
from ..calls import make
from ..values import Undefined, Obj, EnumSym, SBytes, Guarded, SDict, SList, Opaque, TimerRec, UNDEF
from ..interp import TRUE, FALSE
from ..runner import vc

import flexstack.facilities.ca_basic_service.cam_transmission_management as CTM
from flexstack.facilities.ca_basic_service.cam_transmission_management import (CAMTransmissionManagement, CooperativeAwarenessMessage,
                                                                               GenerationDeltaTime, VehicleData)
from flexstack.utils.time_service import TimeService, ITS_EPOCH_MS, ELAPSED_MILLISECONDS

T_MIN, T_MAX, T_LF = 100, 1000, 500


def opt(I, name, val, present=None):
    """Optional value: `val` when present, None otherwise"""
    p = z3.Bool(name + "_set") if present is None else present
    return Guarded([(p, val), (z3.Not(p), None)]), p


class CamHarness:
    """CAMTransmissionManagement in an arbitrary state satisfying INV, with stubbed environment"""

    def __init__(self, first, send_may_fail=True):
        self.I = I = make("int")
        self.first = first
        self.nows = []
        I.stubs[TimeService.time] = self._time
        self.hav = []
        I.stubs[CTM._haversine_m] = self._hav
        self.sent = []          # (pc, cam Obj, tpv)
        self.fail = z3.Bool("send_fails")
        I.stubs[CAMTransmissionManagement._send_cam] = self._send
        self.filled = []
        I.stubs[CooperativeAwarenessMessage.fullfill_with_vehicle_data] = lambda it, a, k, pc: None
        I.stubs[CooperativeAwarenessMessage.fullfill_with_tpv_data] = lambda it, a, k, pc: self.filled.append((pc, a[1]))
        I.stubs[CAMTransmissionManagement._build_lf_container] = lambda it, a, k, pc: Opaque("lf-container")
        coder = Opaque("coder")
        I.stubs[id(coder)] = lambda it, name, a, k, pc: b"\x00"
        self.now0 = I.float_var("now", 1.6e9, 2.3e9)
        tpv_present = z3.Bool("tpv_present")
        self.tpv_present = tpv_present
        self.keys = {k: z3.Bool("has_" + k) for k in ("lat", "lon", "speed", "track")}
        self.tv = {"lat": I.float_var("lat", -90, 90), "lon": I.float_var("lon", -180, 180), "speed": I.float_var("speed", 0, 200),
                   "track": I.float_var("track", 0, 360)}
        self.tpv = SDict([(self.keys[k], k, self.tv[k], False) for k in self.keys] + [(TRUE, "time", Opaque("str"), False)])
        vd = VehicleData(station_id=1, station_type=5, vehicle_role=0)
        f = dict(logging=Opaque("logger"), btp_router=None, vehicle_data=vd, cam_coder=coder, ca_basic_service_ldm=None,
                 _path_history=SList(), _tpv_lock=None, _active=True, _timer=None, last_cam_generation_delta_time=None,
                 _current_tpv=Guarded([(tpv_present, self.tpv), (z3.Not(tpv_present), None)]))
        I.stubs[id(f["logging"])] = lambda it, name, a, k, pc: None
        self.tgen = I.int_var("t_gen_cam", T_MIN, T_MAX)
        self.ctr = I.int_var("n_gen_cam_counter", 0, 2)
        f.update(t_gen_cam=self.tgen, _n_gen_cam_counter=self.ctr, _last_vlf_time_ms=None, _last_special_time_ms=None)
        if first:
            f.update(_last_cam_time_ms=None, _last_cam_heading=None, _last_cam_lat=None, _last_cam_lon=None, _last_cam_speed=None,
                     _cam_count=0, _last_lf_time_ms=None)
            self.last = None
        else:
            self.last = I.int_var("last_cam_ms")
            self.count = I.int_var("cam_count", 1, 10 ** 6)
            self.last_lf = I.int_var("last_lf_ms")
            self.lh, self.lh_p = opt(I, "last_heading", I.float_var("last_heading", 0, 360))
            self.llat, self.llat_p = opt(I, "last_lat", I.float_var("last_lat", -90, 90))
            self.llon, _ = opt(I, "last_lon", I.float_var("last_lon", -180, 180), self.llat_p)
            self.ls, self.ls_p = opt(I, "last_speed", I.float_var("last_speed", 0, 200))
            nowms = z3.ToInt(self.now0 * 1000)
            I.assumptions.append(z3.And(self.last <= nowms, self.last >= 0, self.last_lf <= self.last, self.last_lf >= 0))
            f.update(_last_cam_time_ms=self.last, _last_cam_heading=self.lh, _last_cam_lat=self.llat, _last_cam_lon=self.llon,
                     _last_cam_speed=self.ls, _cam_count=self.count, _last_lf_time_ms=self.last_lf)
        self.o = Obj(CAMTransmissionManagement, f)

    def _time(self, it, a, k, pc):
        if not self.nows:
            self.nows.append(self.now0)
            return self.now0
        t = it.float_var(f"now{len(self.nows)}", 1.6e9, 2.3e9)
        it.assumptions.append(t >= self.nows[-1])
        self.nows.append(t)
        return t

    def _hav(self, it, a, k, pc):
        d = z3.Real(it.fresh("haversine"))
        it.assumptions.append(d >= 0)
        self.hav.append((pc, a, d))
        return d

    def _send(self, it, a, k, pc):
        self.sent.append((pc, a[1]))
        it.raises.append((z3.And(pc, self.fail), Exception))
        return None

    def vars(self):
        v = {"now": self.now0, "tpv_present": self.tpv_present, "send_fails": self.fail, "t_gen_cam": self.tgen, "n_gen_cam_counter": self.ctr}
        v.update({"has_" + k: b for k, b in self.keys.items()})
        v.update(self.tv)
        for n in self.nows[1:]:
            v[n.decl().name()] = n
        for pc, a, d in self.hav:
            v[d.decl().name()] = d
        if not self.first:
            v.update(last_cam_ms=self.last, cam_count=self.count, last_lf_ms=self.last_lf,
                     last_heading_set=self.lh_p, last_lat_set=self.llat_p, last_speed_set=self.ls_p)
            for g in (self.lh, self.llat, self.llon, self.ls):
                v[g.alts[0][1].decl().name()] = g.alts[0][1]
        return v

    # ---------------------------------------------------------------- replay on the real class
    def real(self, vals):
        from unittest import mock
        sent = []
        btp = mock.Mock()
        coder = mock.Mock()
        coder.encode.side_effect = lambda cam: (_ for _ in ()).throw(RuntimeError("encode failed")) if vals.get("send_fails") else b"\x00"
        coder.encode_extension_container.return_value = b"\x00"
        btp.btp_data_request.side_effect = lambda r: sent.append(r)
        m = CAMTransmissionManagement(btp, coder, VehicleData(station_id=1, station_type=5, vehicle_role=0))
        m._active = True
        m.t_gen_cam = vals["t_gen_cam"]
        m._n_gen_cam_counter = vals["n_gen_cam_counter"]
        tpv = None
        if vals["tpv_present"]:
            tpv = {"time": "2025-01-01T00:00:00Z"}
            for k in ("lat", "lon", "speed", "track"):
                if vals["has_" + k]:
                    tpv[k] = vals[k]
        m._current_tpv = tpv
        if not self.first:
            m._last_cam_time_ms = vals["last_cam_ms"]
            m._cam_count = vals["cam_count"]
            m._last_lf_time_ms = vals["last_lf_ms"]
            m._last_cam_heading = vals["last_heading"] if vals["last_heading_set"] else None
            m._last_cam_lat = vals["last_lat"] if vals["last_lat_set"] else None
            m._last_cam_lon = vals["last_lon"] if vals["last_lat_set"] else None
            m._last_cam_speed = vals["last_speed"] if vals["last_speed_set"] else None
        times = [vals["now"]] + [vals[n.decl().name()] for n in self.nows[1:]]
        havs = [vals[d.decl().name()] for pc, a, d in self.hav]
        cams = []
        orig_send = CAMTransmissionManagement._send_cam

        def spy(self_, cam):
            cams.append(cam.cam)
            return orig_send(self_, cam)

        def tm():
            return times.pop(0) if len(times) > 1 else times[0]
        self.filled_real = filled_real = []
        with mock.patch.object(TimeService, "time", staticmethod(tm)), \
                mock.patch.object(CTM, "_haversine_m", lambda *a: havs[0] if havs else 0.0), \
                mock.patch.object(CAMTransmissionManagement, "_send_cam", spy), \
                mock.patch.object(CooperativeAwarenessMessage, "fullfill_with_tpv_data", lambda s, t: filled_real.append((t, t is tpv))):
            m._evaluate_and_maybe_send()
        return m, cams, sent


def py_dynamics(vals, hav):
    if not vals["last_heading_set"]:
        return True
    if vals["has_track"]:
        d = abs(vals["track"] - vals["last_heading"])
        d = 360.0 - d if d > 180.0 else d
        if d > 4.0:
            return True
    if vals["has_lat"] and vals["has_lon"] and vals["last_lat_set"] and hav > 4.0:
        return True
    if vals["has_speed"] and vals["last_speed_set"] and abs(vals["speed"] - vals["last_speed"]) > 0.5:
        return True
    return False


@vc("C10", "M1-M4-cam-check")
def cam_check(ctx):
    """one T_CheckCamGen evaluation from an arbitrary manager state"""
    # ---------------- first CAM
    h = CamHarness(first=True)
    I = h.I
    I.call_function(CAMTransmissionManagement._evaluate_and_maybe_send, [h.o])
    vars_ = h.vars()
    attempted = z3.Or(*[c for c, _ in h.sent]) if h.sent else FALSE
    exc = z3.Or(*[c for c, k in I.raises]) if I.raises else FALSE
    ok_send = z3.And(attempted, z3.Not(h.fail))

    def replay_first(vals):
        m, cams, sent = h.real(vals)
        msgs = []
        want = vals["tpv_present"]
        if bool(cams) != want:
            msgs.append(f"first check with report present={want}: CAM generation attempted={bool(cams)}")
        for c in cams:
            if "lowFrequencyContainer" not in c["cam"]["camParameters"]:
                msgs.append("first CAM lacks the low-frequency container")
        if cams and not vals["send_fails"] and (m._cam_count != 1 or m._last_cam_time_ms != int(vals["now"] * 1000) or m._last_lf_time_ms != m._last_cam_time_ms):
            msgs.append(f"state after first CAM: count={m._cam_count} last={m._last_cam_time_ms} last_lf={m._last_lf_time_ms}")
        return bool(msgs), "; ".join(msgs)
    ctx.witness("first-reach", I, ok_send, vars=vars_, validate=lambda v: not replay_first(v)[0])
    ctx.prove("first-no-exception", I, exc, vars=vars_, replay=replay_first)
    ctx.prove("first-cam-sent-iff-report-available", I, attempted != h.tpv_present, vars=vars_, replay=replay_first,
              desc="the first check after start sends a CAM as soon as a position report is cached, nothing without one")
    lf_bad = [z3.And(c, z3.Not(I._lb(I.contains(cam.fields["cam"], "cam") and I.sdict_lookup(I.container_get(I.container_get(cam.fields["cam"], "cam", TRUE), "camParameters", TRUE), "lowFrequencyContainer")[0])))
              for c, cam in h.sent]
    ctx.prove("first-cam-has-lf-container", I, z3.Or(*lf_bad) if lf_bad else FALSE, vars=vars_, replay=replay_first)
    nowms = z3.ToInt(h.now0 * 1000)
    st = h.o.fields
    ctx.prove("first-state-update", I, z3.And(ok_send, z3.Or(I.num(st["_cam_count"]) != 1, _ne(I, st["_last_cam_time_ms"], nowms), _ne(I, st["_last_lf_time_ms"], nowms),
                                                           I.num(st["t_gen_cam"]) < T_MIN, I.num(st["t_gen_cam"]) > T_MAX)), vars=vars_, replay=replay_first)
    ctx.prove("failed-send-leaves-state", I, z3.And(attempted, h.fail, z3.Or(I.num(st["_cam_count"]) != 0, z3.Not(_is_none(I, st["_last_cam_time_ms"])))), vars=vars_, replay=replay_first,
              desc="a CAM that could not be encoded/sent does not count as sent")

    # ---------------- running
    h = CamHarness(first=False)
    I = h.I
    I.call_function(CAMTransmissionManagement._evaluate_and_maybe_send, [h.o])
    vars_ = h.vars()
    attempted = z3.Or(*[c for c, _ in h.sent]) if h.sent else FALSE
    exc = z3.Or(*[c for c, k in I.raises]) if I.raises else FALSE
    ok_send = z3.And(attempted, z3.Not(h.fail))
    nowms = z3.ToInt(h.now0 * 1000)
    elapsed = nowms - h.last
    hv = h.hav[0][2] if h.hav else z3.RealVal(0)
    lh = h.lh.alts[0][1]
    dh = z3.If(h.tv["track"] - lh >= 0, h.tv["track"] - lh, lh - h.tv["track"])
    dh = z3.If(dh > 180, 360 - dh, dh)
    ds = z3.If(h.tv["speed"] - h.ls.alts[0][1] >= 0, h.tv["speed"] - h.ls.alts[0][1], h.ls.alts[0][1] - h.tv["speed"])
    dyn = z3.Or(z3.Not(h.lh_p), z3.And(h.keys["track"], dh > 4),
                z3.And(h.keys["lat"], h.keys["lon"], h.llat_p, hv > 4),
                z3.And(h.keys["speed"], h.ls_p, ds > z3.RealVal("1/2")))
    st = h.o.fields

    def replay(vals):
        m, cams, sent = h.real(vals)
        now = int(vals["now"] * 1000)
        el = now - vals["last_cam_ms"]
        hav = [vals[d.decl().name()] for pc, a, d in h.hav]
        dynv = py_dynamics(vals, hav[0] if hav else 0.0)
        msgs = []
        present = vals["tpv_present"]
        must = present and ((el >= T_MIN and dynv) or (el >= vals["t_gen_cam"] and el >= T_MIN))
        if cams and el < T_MIN:
            msgs.append(f"CAM generated {el} ms after the previous one (< T_GenCamMin)")
        if must and not cams:
            msgs.append(f"no CAM although elapsed={el} ms, T_GenCam={vals['t_gen_cam']}, dynamics changed={dynv}")
        if cams and not must:
            msgs.append(f"CAM generated although no condition holds (elapsed={el}, T_GenCam={vals['t_gen_cam']}, dynamics={dynv}, report={present})")
        for c in cams:
            lf = "lowFrequencyContainer" in c["cam"]["camParameters"]
            want_lf = now - vals["last_lf_ms"] >= T_LF
            if lf != want_lf:
                msgs.append(f"LF container present={lf}, {now - vals['last_lf_ms']} ms after the last one")
        if cams and not vals["send_fails"]:
            if not (T_MIN <= m.t_gen_cam <= T_MAX) or not (0 <= m._n_gen_cam_counter <= 2) or m._last_cam_time_ms != now or m._cam_count != vals["cam_count"] + 1:
                msgs.append(f"state after CAM: T_GenCam={m.t_gen_cam} counter={m._n_gen_cam_counter} last={m._last_cam_time_ms} count={m._cam_count}")
        if cams and not vals["send_fails"]:
            for key, attr in (("track", "_last_cam_heading"), ("speed", "_last_cam_speed")):
                if vals["has_" + key] and getattr(m, attr) != vals[key]:
                    msgs.append(f"after the CAM the reference {attr} is {getattr(m, attr)}, the CAM was built from {key}={vals[key]}")
            if vals["has_lat"] and vals["has_lon"] and (m._last_cam_lat, m._last_cam_lon) != (vals["lat"], vals["lon"]):
                msgs.append(f"after the CAM the reference position is {(m._last_cam_lat, m._last_cam_lon)}, the CAM was built from {(vals['lat'], vals['lon'])}")
        if not cams or vals["send_fails"]:
            if m._last_cam_time_ms != vals["last_cam_ms"] or m._cam_count != vals["cam_count"]:
                msgs.append("state changed without a CAM having been sent")
        return bool(msgs), "; ".join(msgs)
    ctx.witness("run-reach-condition1", I, z3.And(ok_send, elapsed < h.tgen), vars=vars_, validate=lambda v: not replay(v)[0])
    ctx.witness("run-reach-condition2", I, z3.And(ok_send, z3.Not(dyn)), vars=vars_, validate=lambda v: not replay(v)[0])
    ctx.prove("run-no-exception", I, exc, vars=vars_, replay=replay)
    ctx.prove("M1-never-below-T_GenCamMin", I, z3.And(attempted, elapsed < T_MIN), vars=vars_, replay=replay,
              desc="no CAM is generated less than 100 ms after the previous one")
    ctx.prove("M2-T_GenCam-elapsed-sends", I, z3.And(h.tpv_present, elapsed >= h.tgen, elapsed >= T_MIN, z3.Not(attempted)), vars=vars_, replay=replay,
              desc="elapsed >= T_GenCam (<= 1000 ms by the invariant) => a CAM is generated at this check")
    ctx.prove("M3-dynamics-send-at-first-check-after-100ms", I, z3.And(h.tpv_present, elapsed >= T_MIN, dyn, z3.Not(attempted)), vars=vars_, replay=replay,
              desc="heading > 4 deg (wrap-aware), position > 4 m or speed > 0.5 m/s changed and >= 100 ms elapsed => CAM")
    ctx.prove("no-cam-without-a-condition", I, z3.And(attempted, z3.Not(z3.And(h.tpv_present, z3.Or(z3.And(elapsed >= T_MIN, dyn), z3.And(elapsed >= h.tgen, elapsed >= T_MIN))))),
              vars=vars_, replay=replay)
    lf_due = nowms - h.last_lf >= T_LF
    lf_bad = []
    for c, cam in h.sent:
        params = I.container_get(I.container_get(cam.fields["cam"], "cam", TRUE), "camParameters", TRUE)
        has = I._lb(I.sdict_lookup(params, "lowFrequencyContainer")[0])
        lf_bad.append(z3.And(c, has != lf_due))
    ctx.prove("M4-lf-container-iff-500ms", I, z3.Or(*lf_bad) if lf_bad else FALSE, vars=vars_, replay=replay,
              desc="the low-frequency container is included exactly when >= 500 ms passed since the last CAM that carried it")
    ctx.prove("M4-lf-time-updated-only-then", I, z3.And(ok_send, _ne(I, st["_last_lf_time_ms"], z3.If(lf_due, nowms, h.last_lf))), vars=vars_, replay=replay)
    ctx.prove("INV-preserved", I, z3.And(ok_send, z3.Or(I.num(st["t_gen_cam"]) < T_MIN, I.num(st["t_gen_cam"]) > T_MAX, I.num(st["_n_gen_cam_counter"]) < 0,
                                                         I.num(st["_n_gen_cam_counter"]) > 2, _ne(I, st["_last_cam_time_ms"], nowms), I.num(st["_cam_count"]) != h.count + 1)),
              vars=vars_, replay=replay, desc="after a CAM: 100 <= T_GenCam <= 1000, counter in 0..2, last-CAM time = now: induction invariant giving the T_GenCamMax + one check period bound")
    ref_bad = z3.Or(z3.And(h.keys["track"], _ne(I, st["_last_cam_heading"], h.tv["track"])), z3.And(h.keys["speed"], _ne(I, st["_last_cam_speed"], h.tv["speed"])),
                    z3.And(h.keys["lat"], h.keys["lon"], z3.Or(_ne(I, st["_last_cam_lat"], h.tv["lat"]), _ne(I, st["_last_cam_lon"], h.tv["lon"]))))
    ctx.prove("M3-dynamics-reference-is-the-last-cam", I, z3.And(ok_send, ref_bad), vars=vars_, replay=replay,
              desc="after every CAM - generated for the dynamics (condition 1) or because T_GenCam elapsed (condition 2) - the heading / position / speed the next "
                   "checks compare with are those of this CAM: 'differ from the last CAM' is judged against the last CAM, not against the last condition-1 CAM")
    ctx.prove("no-send-no-state-change", I, z3.And(z3.Or(z3.Not(attempted), h.fail), z3.Or(_ne(I, st["_last_cam_time_ms"], h.last), I.num(st["_cam_count"]) != h.count)), vars=vars_, replay=replay)
    # M7: the CAM is filled from the cached report
    def is_cached(t):
        if isinstance(t, Guarded):
            return z3.Or(*[cc for cc, x in t.alts if x is h.tpv]) if any(x is h.tpv for _, x in t.alts) else FALSE
        return z3.BoolVal(t is h.tpv)
    m7 = [z3.And(c, z3.Not(is_cached(t))) for c, t in h.filled]
    def replay_m7(vals):
        m, cams, sent = h.real(vals)
        wrong = [t for t, same in h.filled_real if not same]
        return bool(wrong) or (bool(cams) and not h.filled_real), f"CAM filled from {wrong[:1] or 'nothing'} instead of the cached position report ({len(h.filled_real)} fill calls for {len(cams)} CAMs)"
    ctx.prove("M7-cam-built-from-latest-report", I, z3.Or(*m7) if m7 else TRUE, vars=vars_, replay=replay_m7)
    ctx.bound("one evaluation from an arbitrary state: T_GenCam 100..1000, counter 0..2, arbitrary last-CAM / last-LF times <= now, optional last heading/position/speed, "
              "arbitrary report with every subset of lat/lon/speed/track; real-valued clock; haversine distance an arbitrary non-negative real")
    ctx.stub("TimeService.time non-decreasing reals; _haversine_m free; _send_cam records and may fail; CAM field filling (C11) stubbed")


class _FakeTimerC10:
    made = []

    def __init__(self, delay, fn, args=None, kwargs=None):
        self.delay, self.fn, self.started, self.cancelled, self.daemon = delay, fn, False, False, False
        _FakeTimerC10.made.append(self)

    def start(self):
        self.started = True

    def cancel(self):
        self.cancelled = True


def _replay_start(vals):
    from unittest import mock
    import flexstack.facilities.ca_basic_service.cam_transmission_management as mod
    m = CAMTransmissionManagement(mock.Mock(), mock.Mock(), VehicleData(station_id=1, station_type=5, vehicle_role=0))
    m._active = bool(vals["was_active"])
    m._cam_count, m._last_cam_time_ms, m._last_lf_time_ms = 7, 1000, 900
    _FakeTimerC10.made = []
    jit = float(vals["jitter"]) if not isinstance(vals["jitter"], str) else float(__import__("fractions").Fraction(vals["jitter"].rstrip("?")))
    with mock.patch.object(mod.threading, "Timer", _FakeTimerC10), mock.patch.object(mod.random, "uniform", lambda a, b: min(max(jit, a), b)):
        m.start()
    bad = []
    if not vals["was_active"]:
        started = [t for t in _FakeTimerC10.made if t.started]
        if not started:
            bad.append("no check timer armed")
        for t in started:
            if t.delay < 0 or t.delay * 1000 > 100 + 1e-9:
                bad.append(f"first check armed after {t.delay * 1000:.3f} ms (outside [0, 100] ms)")
        if m._last_cam_time_ms is not None or m._cam_count != 0:
            bad.append(f"generation state not reset (last CAM time {m._last_cam_time_ms}, count {m._cam_count})")
        if not m._active:
            bad.append("service not active after start()")
    if m._timer is not None and hasattr(m._timer, "cancel"):
        m._timer.cancel()
    return bool(bad), "start(): " + ("; ".join(bad) or "as required")


def _replay_stop(vals):
    from unittest import mock
    m = CAMTransmissionManagement(mock.Mock(), mock.Mock(), VehicleData(station_id=1, station_type=5, vehicle_role=0))
    t = _FakeTimerC10(0.1, None)
    t.started = True
    m._active, m._timer = True, t
    m.stop()
    bad = []
    if not t.cancelled:
        bad.append("the armed timer was not cancelled")
    if m._active:
        bad.append("service still active")
    return bool(bad), "stop(): " + ("; ".join(bad) or "as required")


def _ne(I, v, expected):
    if isinstance(v, Guarded):
        return z3.Not(z3.Or(*[z3.And(c, z3.Not(_ne(I, x, expected))) for c, x in v.alts]))
    if v is None or isinstance(v, Undefined):
        return TRUE
    return I.num(v) != expected


def _is_none(I, v):
    return I._lb(I.identical(v, None))


@vc("C10", "M5-timer-loop")
def timer_loop(ctx):
    """T_CheckCamGen loop: re-armed with 100 ms after every check while active, also when the evaluation raises; nothing when stopped"""
    import random
    I = make("int")
    active = z3.Bool("active")
    boom = z3.Bool("evaluation_raises")
    calls = []
    I.stubs[CAMTransmissionManagement._evaluate_and_maybe_send] = lambda it, a, k, pc: (calls.append(pc), it.raises.append((z3.And(pc, boom), RuntimeError)))[0]
    o = Obj(CAMTransmissionManagement, dict(_active=active, _timer=None))
    I.call_function(CAMTransmissionManagement._check_cam_conditions, [o])
    timers = [(c, t) for c, k, t in I.events if k == "timer.new"]
    started = z3.Or(*[z3.And(c, t.started) for c, t in timers]) if timers else FALSE

    def off_100ms(d):
        if isinstance(d, (int, float)):
            return z3.BoolVal(abs(d * 1000 - 100) > 1e-9)
        x = I.to_float(d) * 1000
        return z3.Or(x < 100 - z3.RealVal("1/1000000000"), x > 100 + z3.RealVal("1/1000000000"))
    delay_bad = z3.Or(*[z3.And(c, off_100ms(t.delay)) for c, t in timers]) if timers else FALSE
    cb_bad = z3.Or(*[z3.And(c, TRUE if not (hasattr(t.fn, "fn") and t.fn.fn is CAMTransmissionManagement._check_cam_conditions) else FALSE) for c, t in timers]) if timers else FALSE
    evaluated = z3.Or(*calls) if calls else FALSE
    vars_ = {"active": active, "evaluation_raises": boom}

    def replay(vals):
        from unittest import mock
        made = []

        class FT:
            def __init__(self, interval, function, *a, **k):
                self.interval, self.function = interval, function
                self.started = False
                made.append(self)

            def start(self):
                self.started = True

            def cancel(self):
                pass
        m = CAMTransmissionManagement(mock.Mock(), mock.Mock(), VehicleData())
        m._active = vals["active"]
        ran = []

        def ev():
            ran.append(1)
            if vals["evaluation_raises"]:
                raise RuntimeError("x")
        m._evaluate_and_maybe_send = ev
        with mock.patch.object(CTM.threading, "Timer", FT):
            try:
                m._check_cam_conditions()
            except RuntimeError:
                pass
        ok = (len(made) == 1 and made[0].started and abs(made[0].interval - 0.1) < 1e-12 and ran) if vals["active"] else (not made and not ran)
        return not ok, f"active={vals['active']} evaluation raises={vals['evaluation_raises']}: timers armed={[(t.interval, t.started) for t in made]} evaluated={bool(ran)}"
    ctx.witness("reach-rearm-after-exception", I, z3.And(active, boom, started), vars=vars_, validate=lambda v: not replay(v)[0])
    ctx.prove("active-always-rearms-100ms", I, z3.And(active, z3.Or(z3.Not(started), delay_bad, cb_bad, z3.Not(evaluated))), vars=vars_, replay=replay,
              desc="while active every check evaluates the conditions and re-arms T_CheckCamGen = 100 ms, even if the evaluation raised")
    ctx.prove("inactive-does-nothing", I, z3.And(z3.Not(active), z3.Or(evaluated, *[c for c, t in timers])), vars=vars_, replay=replay,
              desc="after stop() a pending timer callback neither evaluates nor re-arms")
    two = [z3.And(timers[i][0], timers[j][0]) for i in range(len(timers)) for j in range(i)]
    ctx.prove("at-most-one-timer", I, z3.Or(*two) if two else FALSE, vars=vars_, replay=replay)

    # start() / stop()
    I2 = make("int")
    u = I2.float_var("jitter")
    I2.stubs[random.uniform] = lambda it, a, k, pc: (it.assumptions.append(z3.And(u >= I2.to_float(a[0]), u <= I2.to_float(a[1]))), u)[1]
    was_active = z3.Bool("was_active")
    o2 = Obj(CAMTransmissionManagement, dict(_active=was_active, _timer=None, _cam_count=I2.int_var("cnt", 0, 1000), _last_cam_time_ms=I2.int_var("last", 0, 10 ** 13),
                                             _last_cam_heading=None, _last_cam_lat=None, _last_cam_lon=None, _last_cam_speed=None, _last_lf_time_ms=I2.int_var("lf", 0, 10 ** 13),
                                             _last_vlf_time_ms=None, _last_special_time_ms=None, _path_history=SList(), t_gen_cam=I2.int_var("tg", 100, 1000),
                                             _n_gen_cam_counter=I2.int_var("c", 0, 2)))
    I2.call_function(CAMTransmissionManagement.start, [o2])
    t2 = [(c, t) for c, k, t in I2.events if k == "timer.new"]
    bad = z3.And(z3.Not(was_active), z3.Or(z3.Not(z3.Or(*[z3.And(c, t.started) for c, t in t2]) if t2 else FALSE),
                                           *[z3.And(c, z3.Or(I2.to_float(t.delay) < 0, I2.to_float(t.delay) * 1000 > 100 + z3.RealVal("1/1000000000"))) for c, t in t2],
                                           z3.Not(_is_none(I2, o2.fields["_last_cam_time_ms"])), I2.num(o2.fields["_cam_count"]) != 0,
                                           z3.Not(I2.to_bool(o2.fields["_active"]))))
    ctx.prove("start-resets-and-arms-within-one-period", I2, bad, vars={"was_active": was_active, "jitter": u},
              replay=_replay_start,
              desc="start(): state reset (next CAM is a 'first' CAM with LF container), first check within one T_CheckCamGen")
    I3 = make("int")
    tm = TimerRec(0.1, None, [], TRUE)
    tm.started = TRUE
    o3 = Obj(CAMTransmissionManagement, dict(_active=True, _timer=tm))
    I3.call_function(CAMTransmissionManagement.stop, [o3])
    ctx.prove("stop-cancels-and-deactivates", I3, z3.Or(z3.Not(tm.cancelled), I3.to_bool(o3.fields["_active"])), vars={},
              replay=_replay_stop)
    ctx.bound("active flag and evaluation outcome symbolic; start() from an arbitrary previous state; random jitter an arbitrary value in the requested interval")
    ctx.stub("threading.Timer records (delay, callback, start/cancel); random.uniform returns any value in range")


@vc("C10", "M6-generation-delta-time")
def gdt(ctx):
    """generationDeltaTime(report time) = ITS timestamp of the report modulo 65536, for every millisecond-aligned report time 2004..2040"""
    # err mode: the double computation with a relative rounding error |d| <= 2^-53 per operation (sound over-approximation)
    I = make("int", fmode="err")
    M = I.int_var("micros")        # datetime.timestamp() of a parsed time = fl(M / 10^6) for an integer microsecond count
    I.assumptions.append(z3.And(M >= 1072915200 * 10 ** 6, M <= 2208988800 * 10 ** 6, M % 1000 == 0))
    raw = z3.ToReal(M) / 1000000
    I.rbound[raw.get_id()] = 2208988800.0
    ts = I._round(raw)
    g = I.call_function(GenerationDeltaTime.from_timestamp, [ts])
    got = g.fields["msec"]
    want = (M / 1000 - ITS_EPOCH_MS + ELAPSED_MILLISECONDS) % 65536
    vars_ = {"micros": M}

    def replay(vals):
        import datetime
        m = vals["micros"]
        ts_ = datetime.datetime.fromtimestamp(m // 10 ** 6, datetime.timezone.utc).replace(microsecond=m % 10 ** 6).timestamp()
        r = GenerationDeltaTime.from_timestamp(ts_).msec
        w = (m // 1000 - ITS_EPOCH_MS + ELAPSED_MILLISECONDS) % 65536
        return r != w, f"report time {m} us (UTC {datetime.datetime.fromtimestamp(m / 1e6, datetime.timezone.utc).isoformat()}): generationDeltaTime {r}, ITS time mod 65536 is {w}"
    ctx.witness("reach", I, got == want, vars=vars_)
    # candidates from the error model are confirmed in exact binary64 on the real function before being reported
    s = z3.Solver()
    s.set("timeout", ctx.timeout_ms)
    s.add(*I.assumptions)
    s.add(I.num(got) != want)
    import time as _t
    t0 = _t.time()
    r = s.check()
    ctx.solver_s += _t.time() - t0
    if str(r) == "unsat":
        ctx._rec(kind="prove", query="gdt-equals-its-time-mod-65536", status="discharged", seconds=_t.time() - t0,
                 desc="error-bounded real model of the double computation: no millisecond-aligned report time can yield a wrong generationDeltaTime")
    elif str(r) == "sat":
        # the over-approximation admits a deviation: search the neighbourhood of the candidate for a reproducible witness
        cand = s.model().eval(M, model_completion=True).as_long()
        found = None
        # binary64 witnesses are rare (the first rounding error must survive the multiplication): try the solver's
        # candidate, an input known to be hard (2038-09-18T14:01:33.581Z), then scan a late-epoch window where the
        # ulp of seconds*1000 is largest
        seeds = [cand, 2168431293581000]
        for m in seeds:
            if replay({"micros": m})[0]:
                found = m
                break
        if found is None:
            import itertools
            for m in itertools.chain(range(cand, cand + 300000 * 1000, 1000), range(2168431000000000, 2168431000000000 + 3000000 * 1000, 1000)):
                if replay({"micros": m})[0]:
                    found = m
                    break
        if found is None:
            ctx._rec(kind="prove", query="gdt-equals-its-time-mod-65536", status="inconclusive", seconds=_t.time() - t0,
                     reason="error model admits a deviation but no binary64 witness was found near the candidate")
        else:
            ok, detail = replay({"micros": found})
            known = [k for k in ctx.known if k.get("query") == "gdt-equals-its-time-mod-65536"]
            if known:
                print(f"KNOWN-FINDING: property=C10 {known[0]['id']}: {known[0]['what']}", flush=True)
                ctx._rec(kind="prove", query="gdt-equals-its-time-mod-65536", status="known", seconds=_t.time() - t0, known=[known[0]["id"]], values={"micros": found})
            else:
                path = ctx._write_replay("gdt-equals-its-time-mod-65536", {"micros": found}, detail)
                ctx._rec(kind="prove", query="gdt-equals-its-time-mod-65536", status="violation", seconds=_t.time() - t0, values={"micros": found}, detail=detail, replay=path)
    else:
        ctx._rec(kind="prove", query="gdt-equals-its-time-mod-65536", status="inconclusive", reason="solver " + str(r))
    ctx.use(I)
    ctx.bound("every millisecond-aligned report time between 2004-01-01 and 2040-01-01 (one symbolic integer microsecond count); double arithmetic modelled with a relative "
              "error of at most 2^-53 per operation (no overflow/underflow in this range)")


# ------------------------------------------------------------------------------------------------ VAM
import flexstack.facilities.vru_awareness_service.vam_transmission_management as VTM
from flexstack.facilities.vru_awareness_service.vam_transmission_management import VAMTransmissionManagement, VAMMessage
from flexstack.facilities.vru_awareness_service import vam_constants as VC_


class VamHarness:
    def __init__(self, first, clustering):
        self.I = I = make("int")
        self.first = first
        self.sent = []
        I.stubs[VAMTransmissionManagement.send_next_vam] = lambda it, a, k, pc: self.sent.append((pc, a[1] if len(a) > 1 else k.get("vam")))
        I.stubs[VAMMessage.fullfill_with_device_data] = lambda it, a, k, pc: None
        I.stubs[VAMMessage.fullfill_with_tpv_data] = lambda it, a, k, pc: None
        # report time: millisecond aligned -> generationDeltaTime of the report is an arbitrary value 0..65535
        self.recv = I.int_var("report_gdt", 0, 65535)
        I.stubs[GenerationDeltaTime.from_timestamp] = lambda it, a, k, pc: Obj(GenerationDeltaTime, dict(msec=self.recv))
        parsed = Opaque("datetime")
        I.stubs[id(parsed)] = lambda it, name, a, k, pc: z3.Real("report_ts")
        I.stubs[VTM.parser.parse] = lambda it, a, k, pc: parsed
        self.dist = z3.Real("euclid")
        I.assumptions.append(self.dist >= 0)
        I.stubs[VTM.Utils.euclidian_distance] = lambda it, a, k, pc: self.dist
        self.has_track = z3.Bool("has_track")
        self.tv = {"lat": I.float_var("lat", -90, 90), "lon": I.float_var("lon", -180, 180), "speed": I.float_var("speed", 0, 50), "track": I.float_var("track", 0, 360)}
        self.tpv = SDict([(TRUE, "time", Opaque("str"), False), (TRUE, "lat", self.tv["lat"], False), (TRUE, "lon", self.tv["lon"], False),
                          (TRUE, "speed", self.tv["speed"], False), (self.has_track, "track", self.tv["track"], False)])
        self.may_tx = z3.Bool("should_transmit")
        cm = None
        if clustering:
            cm = Opaque("clustering")
            I.stubs[id(cm)] = lambda it, name, a, k, pc: self.may_tx if name == "should_transmit_vam" else None
        self.last = I.int_var("last_gdt", 0, 65535)
        self.tgen = I.int_var("t_genvam", VC_.T_GENVAMMIN, VC_.T_GENVAMMAX)
        self.lspeed, self.lhead = I.float_var("last_speed", 0, 50), I.float_var("last_heading", 0, 360)
        lg = Opaque("logger")
        I.stubs[id(lg)] = lambda it, name, a, k, pc: None
        self.o = Obj(VAMTransmissionManagement, dict(
            logging=lg, btp_router=None, device_data_provider=None, vru_basic_service_ldm=None, vam_coder=None, clustering_manager=cm,
            t_genvam=self.tgen, n_genvam=1, last_vam_generation_delta_time=None if first else Obj(GenerationDeltaTime, dict(msec=self.last)),
            last_sent_position=(I.float_var("last_lat", -90, 90), I.float_var("last_lon", -180, 180)), last_vam_info_lock=None,
            last_vam_speed=self.lspeed, last_vam_heading=self.lhead, last_lf_vam_time=None, is_first_vam=first))

    def vars(self):
        v = {"report_gdt": self.recv, "euclid": self.dist, "has_track": self.has_track, "should_transmit": self.may_tx, "last_gdt": self.last,
             "t_genvam": self.tgen, "last_speed": self.lspeed, "last_heading": self.lhead}
        v.update(self.tv)
        return v

    def real(self, vals, clustering):
        from unittest import mock
        sent = []
        cm = None
        if clustering:
            cm = mock.Mock()
            cm.should_transmit_vam.return_value = vals["should_transmit"]
        m = VAMTransmissionManagement(mock.Mock(), mock.Mock(), mock.Mock(), None, cm)
        m.t_genvam = vals["t_genvam"]
        if not self.first:
            m.last_vam_generation_delta_time = GenerationDeltaTime(msec=vals["last_gdt"])
            m.is_first_vam = False
        m.last_vam_speed, m.last_vam_heading = vals["last_speed"], vals["last_heading"]
        tpv = {"time": "2025-01-01T00:00:00Z", "lat": vals["lat"], "lon": vals["lon"], "speed": vals["speed"]}
        if vals["has_track"]:
            tpv["track"] = vals["track"]
        with mock.patch.object(VAMTransmissionManagement, "send_next_vam", lambda s, vam: sent.append(vam)), \
                mock.patch.object(VAMMessage, "fullfill_with_device_data", lambda s, d: None), \
                mock.patch.object(VAMMessage, "fullfill_with_tpv_data", lambda s, t: None), \
                mock.patch.object(GenerationDeltaTime, "from_timestamp", classmethod(lambda c, t: GenerationDeltaTime(msec=vals["report_gdt"]))), \
                mock.patch.object(VTM.Utils, "euclidian_distance", staticmethod(lambda a, b: vals["euclid"])):
            m.location_service_callback(tpv)
        return sent


@vc("C10", "W1-W3-vam-trigger")
def vam_trigger(ctx):
    """one position report against an arbitrary VAM transmission state"""
    for clustering in (False, True):
        for first in (True, False):
            h = VamHarness(first, clustering)
            I = h.I
            I.call_function(VAMTransmissionManagement.location_service_callback, [h.o, h.tpv])
            sent = z3.Or(*[c for c, _ in h.sent]) if h.sent else FALSE
            exc = z3.Or(*[c for c, k in I.raises]) if I.raises else FALSE
            allowed = h.may_tx if clustering else TRUE
            tag = f"{'first' if first else 'running'}{'+clustering' if clustering else ''}"
            vars_ = h.vars()
            delta = (h.recv - h.last) % 65536

            def replay(vals, h=h, clustering=clustering, first=first):
                s_ = h.real(vals, clustering)
                ok_tx = vals["should_transmit"] if clustering else True
                d = (vals["report_gdt"] - vals["last_gdt"]) % 65536
                msgs = []
                if not ok_tx and s_:
                    msgs.append("VAM sent although the clustering function suppresses individual VAMs (passive/idle)")
                if first and ok_tx and len(s_) != 1:
                    msgs.append(f"first report after activation: {len(s_)} VAMs")
                if not first and s_ and d < VC_.T_GENVAMMIN:
                    msgs.append(f"VAM generated {d} ms (report timestamps) after the previous one (< T_GenVamMin)")
                if not first and ok_tx and d >= vals["t_genvam"] and not s_:
                    msgs.append(f"no VAM although {d} ms >= T_GenVam {vals['t_genvam']}")
                if len(s_) > 1:
                    msgs.append(f"{len(s_)} VAMs for one report")
                return bool(msgs), f"{tag}: " + "; ".join(msgs)
            ctx.witness(f"{tag}-reach-send", I, z3.And(sent, z3.Not(exc), delta >= VC_.T_GENVAMMIN), vars=vars_, validate=lambda v, rp=replay: not rp(v)[0])
            ctx.prove(f"{tag}-no-exception", I, exc, vars=vars_, replay=replay)
            ctx.prove(f"{tag}-suppressed-when-passive-or-idle", I, z3.And(z3.Not(allowed), sent), vars=vars_, replay=replay)
            two = [z3.And(h.sent[i][0], h.sent[j][0]) for i in range(len(h.sent)) for j in range(i)]
            ctx.prove(f"{tag}-at-most-one-vam-per-report", I, z3.Or(*two) if two else FALSE, vars=vars_, replay=replay)
            if first:
                ctx.prove(f"{tag}-W1-first-report-sends", I, z3.And(allowed, z3.Not(sent)), vars=vars_, replay=replay,
                          desc="the first position report after activation generates a VAM")
            else:
                ctx.prove(f"{tag}-W2-never-below-T_GenVamMin", I, z3.And(sent, delta < VC_.T_GENVAMMIN), vars=vars_, replay=replay,
                          desc="consecutive VAMs are at least 100 ms apart on the reports' timestamps (modulo 65536)")
                ctx.prove(f"{tag}-W3-T_GenVam-elapsed-sends", I, z3.And(allowed, delta >= h.tgen, z3.Not(sent)), vars=vars_, replay=replay,
                          desc="elapsed >= T_GenVam (<= T_GenVamMax = 5 s) => a VAM is generated at this report")
    ctx.bound("report generationDeltaTime and last-VAM generationDeltaTime arbitrary in 0..65535 (wrap included), T_GenVam 100..5000, arbitrary last speed/heading/position, "
              "Euclidean distance an arbitrary non-negative real, optional track; with and without a clustering manager (arbitrary verdict)")
    ctx.stub("dateutil parse / GenerationDeltaTime.from_timestamp -> arbitrary millisecond value (its own VC is M6); VAM filling and send_next_vam stubbed (send recorded)")


@vc("C10", "W4-vam-lf-container")
def vam_lf(ctx):
    """low-frequency container in the first VAM and whenever >= T_GenVamLfMin (2 s) since the last one that carried it"""
    import time as _time
    I = make("int")
    now = I.float_var("now", 1.6e9, 2.3e9)
    I.stubs[_time.time] = lambda it, a, k, pc: now
    first = z3.Bool("is_first")
    last = I.float_var("last_lf", 1.5e9, 2.3e9)
    has_last = z3.Bool("has_last_lf")
    has_op = z3.Bool("has_cluster_operation_container")
    params = SDict([(has_op, "vruClusterOperationContainer", Opaque("op"), False), (TRUE, "vruHighFrequencyContainer", Opaque("hf"), False)])
    vam = Obj(VAMMessage, dict(vam=SDict([(TRUE, "vam", SDict([(TRUE, "vamParameters", params, False)]), False)])))
    o = Obj(VAMTransmissionManagement, dict(is_first_vam=first, last_lf_vam_time=Guarded([(has_last, last), (z3.Not(has_last), None)])))
    I.assumptions.append(last <= now)
    I.call_function(VAMTransmissionManagement._attach_lf_container_if_due, [o, vam])
    got = I._lb(I.sdict_lookup(params, "vruLowFrequencyContainer")[0])
    due = z3.Or(first, z3.Not(has_last), (now - last) * 1000 >= VC_.T_GENVAM_LFMIN, has_op)
    vars_ = {"now": now, "is_first": first, "last_lf": last, "has_last_lf": has_last, "has_cluster_operation_container": has_op}

    def replay(vals):
        from unittest import mock
        m = VAMTransmissionManagement(mock.Mock(), mock.Mock(), mock.Mock(), None, None)
        m.is_first_vam = vals["is_first"]
        m.last_lf_vam_time = vals["last_lf"] if vals["has_last_lf"] else None
        v = VAMMessage()
        if vals["has_cluster_operation_container"]:
            v.vam["vam"]["vamParameters"]["vruClusterOperationContainer"] = {}
        with mock.patch("time.time", lambda: vals["now"]):
            m._attach_lf_container_if_due(v)
        has = "vruLowFrequencyContainer" in v.vam["vam"]["vamParameters"]
        want = vals["is_first"] or not vals["has_last_lf"] or (vals["now"] - vals["last_lf"]) * 1000 >= VC_.T_GENVAM_LFMIN or vals["has_cluster_operation_container"]
        upd = m.last_lf_vam_time == vals["now"]
        stale = (not has) and vals["has_last_lf"] and m.last_lf_vam_time != vals["last_lf"]
        return has != want or (has and not upd) or stale, ("the low-frequency timestamp moved although the container was not attached; " if stale else "") + f"first={vals['is_first']} last LF {vals['now'] - vals['last_lf'] if vals['has_last_lf'] else None} s ago: container attached={has}, expected {want}, time updated={upd}"
    ctx.witness("reach-attached", I, z3.And(got, z3.Not(first)), vars=vars_, validate=lambda v: not replay(v)[0])
    ctx.prove("lf-iff-first-or-2s", I, got != due, vars=vars_, replay=replay,
              desc="LF container attached exactly for the first VAM, after >= 2000 ms, or with a cluster-operation container")
    lt = o.fields["last_lf_vam_time"]
    ctx.prove("lf-time-updated-only-when-attached", I, z3.Or(z3.And(got, _fne(I, lt, now)), z3.And(z3.Not(got), has_last, _fne(I, lt, last))), vars=vars_, replay=replay)
    ctx.bound("arbitrary clock and last-LF time (present or not), first flag and cluster-operation container presence symbolic; real arithmetic")
    ctx.stub("time.time returns an arbitrary real")


def _fne(I, v, expected):
    if isinstance(v, Guarded):
        return z3.Not(z3.Or(*[z3.And(c, z3.Not(_fne(I, x, expected))) for c, x in v.alts]))
    if v is None:
        return TRUE
    return I.to_float(v) != expected


# ---------------------------------------------------------------------------------------------- M8 the distance behind the 4 m trigger
@vc("C10", "M8-haversine-distance")
def haversine(ctx):
    """_haversine_m against the haversine formula: every trigonometric / root call is an uninterpreted function, the obligation is that the code
    applies them to exactly the arguments of the formula and combines them as the formula does (the functions themselves are libm's)"""
    import math
    I = make("int")
    lat1, lon1, lat2, lon2 = (I.float_var(n, -180.0, 180.0) for n in ("lat1", "lon1", "lat2", "lon2"))
    SIN, COS, SQRT = (z3.Function(n, z3.RealSort(), z3.RealSort()) for n in ("sin", "cos", "sqrt"))
    ATAN2 = z3.Function("atan2", z3.RealSort(), z3.RealSort(), z3.RealSort())
    K = z3.RealVal(repr(math.pi / 180.0)) if False else I.fconst(math.pi / 180.0)
    I.stubs[math.sin] = lambda it, a, k, pc: SIN(it.to_float(a[0]))
    I.stubs[math.cos] = lambda it, a, k, pc: COS(it.to_float(a[0]))
    I.stubs[math.sqrt] = lambda it, a, k, pc: SQRT(it.to_float(a[0]))
    I.stubs[math.atan2] = lambda it, a, k, pc: ATAN2(it.to_float(a[0]), it.to_float(a[1]))
    I.stubs[math.radians] = lambda it, a, k, pc: it.to_float(a[0]) * K
    res = I.call_function(CTM._haversine_m, [lat1, lon1, lat2, lon2])
    exc = z3.Or(*[c for c, k in I.raises]) if I.raises else FALSE
    dlat, dlon = (lat2 - lat1) * K, (lon2 - lon1) * K
    a = SIN(dlat / 2) * SIN(dlat / 2) + COS(lat1 * K) * COS(lat2 * K) * SIN(dlon / 2) * SIN(dlon / 2)
    one_minus = z3.If(1 - a >= 0, 1 - a, z3.RealVal(0))
    want = z3.RealVal(6371000) * 2 * ATAN2(SQRT(a), SQRT(one_minus))

    def replay(vals):
        def fl(x):
            return float(__import__("fractions").Fraction(str(x).rstrip("?"))) if isinstance(x, str) else float(x)
        pts = [(fl(vals["lat1"]), fl(vals["lon1"]), fl(vals["lat2"]), fl(vals["lon2"])), (41.0, 2.0, 41.0, 2.0001), (41.0, 2.0, 41.0001, 2.0), (-33.9, 18.4, -33.9001, 18.4002),
               (0.0, 179.9999, 0.0, -179.9999)]
        bad = []
        for la1, lo1, la2, lo2 in pts:
            got = CTM._haversine_m(la1, lo1, la2, lo2)
            p1, p2 = math.radians(la1), math.radians(la2)
            h = math.sin((p2 - p1) / 2) ** 2 + math.cos(p1) * math.cos(p2) * math.sin(math.radians(lo2 - lo1) / 2) ** 2
            ref = 2 * 6371000.0 * math.atan2(math.sqrt(h), math.sqrt(max(0.0, 1 - h)))
            if abs(got - ref) > 1e-6 * max(1.0, ref):
                bad.append(f"({la1},{lo1})->({la2},{lo2}): {got:.4f} m, haversine formula {ref:.4f} m")
        return bool(bad), "; ".join(bad) or "agrees with the haversine formula"
    vars_ = {"lat1": lat1, "lon1": lon1, "lat2": lat2, "lon2": lon2}
    ctx.witness("haversine-reach", I, z3.Not(exc), vars=vars_, validate=lambda v: not replay(v)[0], good=TRUE)
    ctx.prove("haversine-no-exception", I, exc, vars=vars_, replay=replay)
    ctx.prove("haversine-is-the-haversine-formula", I, z3.And(z3.Not(exc), I.to_float(res) != want), vars=vars_, replay=replay,
              desc="2R*atan2(sqrt(a), sqrt(max(0, 1-a))) with a = sin^2(dlat/2) + cos(lat1)cos(lat2)sin^2(dlon/2), angles in radians, as a term identity over uninterpreted sin / cos / sqrt / atan2")
    ctx.bound("coordinates arbitrary reals in [-180, 180] degrees; real arithmetic between the library calls")
    ctx.stub("math.sin / cos / sqrt / atan2 uninterpreted functions (shared with the reference term); math.radians = x * (pi/180 as the exact double)")
