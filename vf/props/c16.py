"""C16 - LDM operations are atomic under concurrent providers, consumers and maintenance (engine E2 `ilv`, vf/ilv.py).

Y1: operations of the in-memory back-end (DictionaryDataBase) - linearizability against every serial order of the same
    operations from an arbitrary store;
Y2: service registries / subscriptions and the IF.LDM.3 / IF.LDM.4 operations above them;
Y3: the threaded maintenance wrappers (lock wrappers, garbage collection vs. providers).
A schedule found by the solver is replayed on the real objects with real threads."""
import threading
import itertools
import z3
from ..values import Obj, Opaque, SBytes, SDict, SList, Guarded, Undefined
from ..interp import TRUE, FALSE
from ..runner import vc
from ..ilv import Ilv, IntS, BoolS, TokS, MapS, ListS, SetS, RecS, RefS
from ..ilvreplay import Scheduler, UnitScheduler, GateLock, gate_object, run_schedule
from ..ilvq import solve, feasible, no_deadlock, hangs, note_blocks, bounds_ok

from flexstack.facilities.local_dynamic_map.dictionary_database import DictionaryDataBase
from flexstack.facilities.local_dynamic_map import ldm_classes as LC


# ---------------------------------------------------------------------------------------------- Y1 back-end
NSLOT = 5          # slots of the tuple returned by all() / search()


def _tuple(items):
    t = SList(items)
    t.is_tuple = True
    return t


def _db_env(E, st, nfree=3):
    """a DictionaryDataBase in an arbitrary state: two existing records under symbolic ids ka < kb < next id (each present or not),
    records are content tokens (python compares stored dictionaries by content: equal token = equal content)"""
    D = DictionaryDataBase()
    Do = E.lift(D)
    n0, ka, kb = z3.Int("next_id"), z3.Int("id_a"), z3.Int("id_b")
    va, vb = z3.Int("content_a"), z3.Int("content_b")
    ha, hb = z3.Bool("a_present"), z3.Bool("b_present")
    E.assumptions += [ka >= 0, ka < kb, kb < n0, n0 <= 1000, va >= 1, va <= 4, vb >= 1, vb <= 4]
    keys = [ka, kb] + [n0 + i for i in range(nfree)]
    log = [(ha, ka, E.tokref(va), False), (hb, kb, E.tokref(vb), False)]
    Do.fields["database"] = SDict(log)
    Do.fields["_next_id"] = n0
    E.share(Do, "database", MapS(keys, TokS()), "_lock")
    E.share(Do, "_next_id", IntS(), "_lock")
    # the type selection of an unfiltered search is the identity here (every record is of a requested type; C13 decides the selection)
    E.stubs[LC.RequestDataObjectsReq.filter_out_by_data_object_type] = lambda it, a, k, pc: a[0]
    st.update(D=D, Do=Do, keys=keys, n0=n0, ka=ka, kb=kb, va=va, vb=vb, ha=ha, hb=hb,
              vars={"next_id": n0, "id_a": ka, "id_b": kb, "content_a": va, "content_b": vb, "a_present": ha, "b_present": hb})
    return D, Do


def _real_db(vals, il):
    D = DictionaryDataBase()
    if vals["a_present"]:
        D.database[vals["id_a"]] = {"content": vals["content_a"]}
    if vals["b_present"]:
        D.database[vals["id_b"]] = {"content": vals["content_b"]}
    D._next_id = vals["next_id"]
    return D


def _obs_value(E, v, kind):
    """flatten a return value into integer / boolean terms"""
    if kind == "tuple":
        return ListS(NSLOT).flat(E, v)
    return [E.tok(v)]


OPS = {
    # name: (method, symbolic args builder, real args builder, kind of result)
    "insert1": (DictionaryDataBase.insert, lambda E, st: [E.tokref(z3.IntVal(1))], lambda v: [{"content": 1}], "int"),
    "insert2": (DictionaryDataBase.insert, lambda E, st: [E.tokref(z3.IntVal(2))], lambda v: [{"content": 2}], "int"),
    "insert3": (DictionaryDataBase.insert, lambda E, st: [E.tokref(z3.IntVal(3))], lambda v: [{"content": 3}], "int"),
    "get_a": (DictionaryDataBase.get, lambda E, st: [st["ka"]], lambda v: [v["id_a"]], "tok"),
    "update_a": (DictionaryDataBase.update, lambda E, st: [E.tokref(z3.IntVal(4)), st["ka"]], lambda v: [{"content": 4}, v["id_a"]], "tok"),
    "remove_2": (DictionaryDataBase.remove, lambda E, st: [E.tokref(z3.IntVal(2))], lambda v: [{"content": 2}], "tok"),
    "remove_a": (DictionaryDataBase.remove, lambda E, st: [E.tokref(st["va"])], lambda v: [{"content": v["content_a"]}], "tok"),
    "all": (DictionaryDataBase.all, lambda E, st: [], lambda v: [], "tuple"),
    "exists_a": (DictionaryDataBase.exists, lambda E, st: ["dataObjectID", st["ka"]], lambda v: ["dataObjectID", v["id_a"]], "tok"),
    "exists_new": (DictionaryDataBase.exists, lambda E, st: ["dataObjectID", st["n0"]], lambda v: ["dataObjectID", v["next_id"]], "tok"),
    "search": (DictionaryDataBase.search, lambda E, st: [Obj(LC.RequestDataObjectsReq, dict(application_id=1, data_object_type=(2,), priority=None, order=None, filter=None))],
               lambda v: [LC.RequestDataObjectsReq(application_id=1, data_object_type=(), priority=None, order=None, filter=None)], "tuple"),
    "wipe": (DictionaryDataBase.delete, lambda E, st: [], lambda v: [], "tok"),
}

COMBOS_QUICK = [("insert1", "insert2", "insert3"), ("insert1", "remove_2", "all"), ("update_a", "remove_a", "get_a"), ("insert1", "wipe", "all"),
                ("exists_new", "insert1", "remove_a"), ("search", "insert2", "remove_a")]
COMBOS_THOROUGH = COMBOS_QUICK + [("insert1", "insert2", "all"), ("update_a", "exists_a", "wipe"), ("remove_a", "remove_2", "insert2"),
                                  ("get_a", "wipe", "insert1"), ("search", "update_a", "wipe"), ("all", "update_a", "insert3"),
                                  ("insert1", "insert2", "remove_2"), ("exists_a", "remove_a", "update_a")]


def _py(x):
    """comparable python rendering of a real return value (records -> their content token)"""
    if isinstance(x, dict):
        return x.get("content")
    if isinstance(x, (tuple, list)):
        return tuple(_py(e) for e in x)
    return x


def _serial_real(vals, il, combo, perm):
    D = _real_db(vals, il)
    out = {}
    for nm in perm:
        m, _, ra, _ = OPS[nm]
        out[nm] = _py(getattr(D, m.__name__)(*ra(vals)))
    return out, ({k: _py(v) for k, v in D.database.items()}, D._next_id)


def _db_vc(ctx, combo):
    st = {}
    tag = "Y1[" + "|".join(combo) + "]"

    def build(E):
        D, Do = _db_env(E, st)
        return dict(threads=[(nm, OPS[nm][0], [Do] + OPS[nm][1](E, st)) for nm in combo], locks=[D._lock], lock_names=["_lock"])
    il = Ilv(build, unroll=6).run()
    il.cons = il.encode()
    E = il.E
    obs = []
    for nm in combo:
        obs += _obs_value(E, il.rets[nm][0], OPS[nm][3])
    obs += il.final(st["Do"], "database") + il.final(st["Do"], "_next_id")
    exc = z3.Or(*[c for nm in combo for c, k in il.rets[nm][1]]) if any(il.rets[nm][1] for nm in combo) else FALSE
    vars_ = st["vars"]

    def replay(vals):
        D = _real_db(vals, il)
        sched = Scheduler(vals["schedule"])
        gate_object(D, {"database": "_lock", "_next_id": "_lock"}, sched, il.und_names)
        res, sched = run_schedule(vals["schedule"], {nm: (lambda nm=nm: getattr(D, OPS[nm][0].__name__)(*OPS[nm][2](vals))) for nm in combo}, sched)
        if sched.failed:
            return False, "replay scheduler: " + sched.failed
        errs = [f"{n} raised {r[1]!r}" for n, r in res.items() if r[0] == "raised"]
        got = {nm: _py(res[nm][1]) for nm in combo}
        fin = ({k: _py(v) for k, v in object.__getattribute__(D, "database").items()}, object.__getattribute__(D, "_next_id"))
        explained = [perm for perm in itertools.permutations(combo) if _serial_real(vals, il, combo, perm) == (got, fin)]
        bad = bool(errs) or not explained
        return bad, f"concurrent {combo} from store {vals}: results {got}, final store {fin[0]}, next id {fin[1]} {errs}; " + \
            ("explained by no serial order of the same operations" if not explained else f"explained by {explained[0]}") + f" (switch points {sched.trace})"
    feasible(ctx, il, tag + "-some-schedule")
    solve(ctx, il, tag + "-no-exception", exc, vars=vars_, replay=replay)
    solve(ctx, il, tag + "-linearizable", il.not_linearizable(obs), vars=vars_, replay=replay,
          desc="return values, final store and identifier allocator of the concurrent run equal those of some serial order of the same operations")
    no_deadlock(ctx, il, tag)
    bounds_ok(ctx, il, tag)
    note_blocks(ctx, il, " || ".join(combo) + " on DictionaryDataBase")
    return il, st


def _register_db_vcs():
    for combo in COMBOS_THOROUGH:
        tiers = ("quick", "thorough") if combo in COMBOS_QUICK else ("thorough",)

        def fn(ctx, combo=combo):
            _db_vc(ctx, combo)
            ctx.bound("store: two existing records under symbolic identifiers below a symbolic allocator value (each present or not) plus up to three new identifiers; "
                      "records are content tokens (4 distinct contents); three concurrent operations: " + " || ".join(combo))
            ctx.stub("RequestDataObjectsReq.filter_out_by_data_object_type is the identity in these VCs (type selection decided in C13)")
        fn.__doc__ = "linearizability of " + " || ".join(combo) + " on the in-memory back-end from an arbitrary store"
        vc("C16", "Y1-database-linearizable[" + "|".join(combo) + "]", tiers)(fn)


_register_db_vcs()


@vc("C16", "Y1-identifiers-unique-and-nothing-lost")
def db_ids(ctx):
    """three concurrent inserts: identifiers pairwise distinct, all three records stored under their identifiers, earlier records untouched"""
    st = {}
    combo = ("insert1", "insert2", "insert3")

    def build(E):
        D, Do = _db_env(E, st)
        return dict(threads=[(nm, OPS[nm][0], [Do] + OPS[nm][1](E, st)) for nm in combo], locks=[D._lock], lock_names=["_lock"])
    il = Ilv(build, unroll=6).run()
    il.cons = il.encode()
    E = il.E
    ids = [E.tok(il.rets[nm][0]) for nm in combo]
    fin = il.final(st["Do"], "database")          # per key: present, token
    keys = st["keys"]

    def stored(idt, content):
        return z3.Or(*[z3.And(keys[i] == idt, fin[2 * i], fin[2 * i + 1] == content) for i in range(len(keys))])

    def replay(vals):
        D = _real_db(vals, il)
        sched = Scheduler(vals["schedule"])
        gate_object(D, {"database": "_lock", "_next_id": "_lock"}, sched, il.und_names)
        res, sched = run_schedule(vals["schedule"], {nm: (lambda nm=nm: D.insert(*OPS[nm][2](vals))) for nm in combo}, sched)
        if sched.failed:
            return False, "replay scheduler: " + sched.failed
        got = [res[nm][1] for nm in combo]
        db = object.__getattribute__(D, "database")
        bad = []
        if len(set(got)) < 3:
            bad.append(f"identifiers not unique: {got}")
        for nm, i in zip(combo, got):
            if db.get(i) != OPS[nm][2](vals)[0]:
                bad.append(f"record of {nm} is not stored under its identifier {i}")
        if vals["a_present"] and db.get(vals["id_a"]) != {"content": vals["content_a"]}:
            bad.append("an earlier record was overwritten")
        if object.__getattribute__(D, "_next_id") != vals["next_id"] + 3:
            bad.append(f"allocator at {object.__getattribute__(D, '_next_id')}, expected {vals['next_id'] + 3}")
        return bool(bad), f"three concurrent inserts from allocator {vals['next_id']}: " + ("; ".join(bad) or "ok") + f" (ids {got}, switch points {sched.trace})"
    feasible(ctx, il, "Y1b-some-schedule")
    solve(ctx, il, "Y1b-identifiers-pairwise-distinct", z3.Or(ids[0] == ids[1], ids[0] == ids[2], ids[1] == ids[2]), vars=st["vars"], replay=replay)
    solve(ctx, il, "Y1b-every-record-stored-under-its-identifier", z3.Not(z3.And(*[stored(ids[i], i + 1) for i in range(3)])), vars=st["vars"], replay=replay)
    solve(ctx, il, "Y1b-identifiers-are-new", z3.Or(*[z3.Or(i < st["n0"], i > st["n0"] + 2) for i in ids]), vars=st["vars"], replay=replay)
    solve(ctx, il, "Y1b-earlier-records-untouched", z3.Or(z3.And(st["ha"], z3.Not(stored(st["ka"], st["va"]))), z3.And(st["hb"], z3.Not(stored(st["kb"], st["vb"])))),
          vars=st["vars"], replay=replay)
    solve(ctx, il, "Y1b-allocator-advanced-by-three", il.final(st["Do"], "_next_id")[0] != st["n0"] + 3, vars=st["vars"], replay=replay)
    note_blocks(ctx, il, "insert x 3")


# ---------------------------------------------------------------------------------------------- Y2 service registries and subscriptions
from flexstack.facilities.local_dynamic_map.ldm_service import LDMService
from flexstack.facilities.local_dynamic_map.ldm_maintenance import LDMMaintenance
from flexstack.facilities.local_dynamic_map.if_ldm_3 import InterfaceLDM3
from flexstack.facilities.local_dynamic_map.if_ldm_4 import InterfaceLDM4
from flexstack.facilities.local_dynamic_map import ldm_constants as K
from .c14 import install_hash

APPS = [2, 16]            # CAM and VAM application identifiers (both in VALID_ITS_AID)
SUBS = ["S1", "S2", "N1", "N2"]          # S*: subscriptions that may exist beforehand; N*: created by the concurrent subscribe operations
SUB_APP = {"S1": 2, "S2": 16, "N1": 2, "N2": 16}
SUB_TYPES = {"S1": (2,), "S2": (1,), "N1": (2, 1), "N2": (1, 2)}


def _real_request(tag):
    return LC.SubscribeDataobjectsReq(application_id=SUB_APP[tag], data_object_type=SUB_TYPES[tag], priority=None, filter=None,
                                      notify_time=None, multiplicity=None, order=None)


def _svc_env(E, st, subs=None):
    """LDMService (+ IF.LDM.3/4 on top) in an arbitrary registry / subscription state; `subs`: the subscription universe of this VC"""
    SUBS = list(subs or globals()["SUBS"])
    OLD = [t for t in SUBS if t.startswith("S")]
    M = LDMMaintenance.__new__(LDMMaintenance)
    S = LDMService.__new__(LDMService)
    S.__dict__.update(ldm_maintenance=None, data_provider_its_aid=set(), data_consumer_its_aid=set(), subscriptions=[], last_checked_subscriptions_time={},
                      _lock=threading.RLock())
    So = E.lift(S)
    st["hash_apps"] = install_hash(E)
    calls = {t: [] for t in SUBS}
    infos, reqs, cbs = {}, {}, {}
    for t in SUBS:
        def cb(resp, _t=t):
            raise AssertionError("never executed")
        cb.__name__ = "callback_" + t
        cbs[t] = cb
        E.stubs[cb] = lambda it, a, k, pc, _t=t: (it.events.append((pc, "notify_" + _t, None)), calls[_t].append((pc, len(it.events) - 1)))[0]
        reqs[t] = Obj(LC.SubscribeDataobjectsReq, dict(application_id=SUB_APP[t], data_object_type=SUB_TYPES[t], priority=None, filter=None, notify_time=None,
                                                        multiplicity=None, order=None))
        infos[t] = Obj(LC.SubscriptionInfo, dict(subscription_request=reqs[t], callback=cb))
    # the subscription object created by a subscribe operation is the pre-built one of the universe (same request, same callback)

    def new_info(it, a, k, pc):
        req = k.get("subscription_request", a[0] if a else None)
        for t in SUBS:
            if reqs[t] is req:
                return infos[t]
        raise AssertionError("subscription outside the modelled universe")
    E.stubs[LC.SubscriptionInfo] = new_info
    has = {t: z3.Bool(f"{t}_subscribed") for t in OLD}
    order = z3.Bool("S2_before_S1")
    uni = [infos[t] for t in SUBS]
    if len(OLD) == 2:
        s1, s2 = infos["S1"], infos["S2"]
        first = Guarded([(z3.And(has["S1"], z3.Or(z3.Not(has["S2"]), z3.Not(order))), s1), (z3.And(has["S2"], z3.Or(z3.Not(has["S1"]), order)), s2)])
        second = Guarded([(order, s1), (z3.Not(order), s2)])
        So.fields["subscriptions"] = SList([(z3.Or(has["S1"], has["S2"]), first), (z3.And(has["S1"], has["S2"]), second)])
    elif len(OLD) == 1:
        So.fields["subscriptions"] = SList([(has[OLD[0]], infos[OLD[0]])])
    else:
        So.fields["subscriptions"] = SList([])
    now = z3.Int("now_its")
    E.assumptions.append(z3.And(now >= 0, now <= 2 ** 42))
    tshape = RecS(LC.TimestampIts, ["timestamp"])
    So.fields["last_checked_subscriptions_time"] = SDict([(has[t], infos[t], Obj(LC.TimestampIts, dict(timestamp=z3.Int(f"{t}_last_checked"))), False) for t in OLD])
    E.stubs[LC.TimestampIts.initialize_with_utc_timestamp_seconds] = lambda it, a, k, pc: Obj(LC.TimestampIts, dict(timestamp=now))
    reg = {a: z3.Bool(f"consumer_{a}_registered") for a in APPS}
    preg = {a: z3.Bool(f"provider_{a}_registered") for a in APPS}
    So.fields["data_consumer_its_aid"] = SDict([(reg[a], a, True, False) for a in APPS], is_set=True)
    So.fields["data_provider_its_aid"] = SDict([(preg[a], a, True, False) for a in APPS], is_set=True)
    E.share(So, "subscriptions", ListS(len(uni), RefS(uni)), "_lock")
    E.share(So, "last_checked_subscriptions_time", MapS(uni, tshape), "_lock")
    E.share(So, "data_consumer_its_aid", SetS(APPS), "_lock")
    E.share(So, "data_provider_its_aid", SetS(APPS), "_lock")
    # the store: every subscription finds one matching object (the search itself is C13/C14 material)
    found = E.tokref(z3.IntVal(900))
    E.stubs[LDMService.search_data] = lambda it, a, k, pc: _tuple([(TRUE, found)])
    E.stubs[LC.RequestDataObjectsResp] = lambda it, a, k, pc: E.tokref(z3.IntVal(901))
    from ..facil import logger
    if3, if4 = InterfaceLDM3(S), InterfaceLDM4(S)
    if3o, if4o = E.lift(if3), E.lift(if4)
    st["if_locks"] = [(getattr(o, "_deregistration_lock", None), n) for o, n in ((if3, "if3._deregistration_lock"), (if4, "if4._deregistration_lock"))]
    for o in (if3o, if4o):
        o.fields["ldm_service"] = So
        o.fields["logging"] = logger(E)
    st.update(SUBS=SUBS, OLD=OLD, S=S, So=So, infos=infos, reqs=reqs, cbs=cbs, calls=calls, has=has, order=order, reg=reg, preg=preg, now=now, if3o=if3o, if4o=if4o, uni=uni)
    v = {f"{t}_subscribed": has[t] for t in has}
    if len(OLD) == 2:
        v.update({"S2_before_S1": order})
    v.update({f"consumer_{a}_registered": reg[a] for a in APPS})
    v.update({f"provider_{a}_registered": preg[a] for a in APPS})
    st["vars"] = v
    return S, So


class _RealSvc:
    """the real service in the pre-state of the model, with recording callbacks"""

    def __init__(self, vals):
        from unittest import mock
        self.maint = mock.Mock()
        self.S = LDMService(self.maint)
        self.S.search_data = lambda sub: ({"dataObject": {}},)
        self.if3, self.if4 = InterfaceLDM3(self.S), InterfaceLDM4(self.S)
        self.notified = []
        self.req = {t: _real_request(t) for t in SUBS}
        self.cb = {t: (lambda resp, _t=t: self.notified.append(_t)) for t in SUBS}
        self.info = {t: LC.SubscriptionInfo(self.req[t], self.cb[t]) for t in SUBS}
        pre = [t for t in ("S1", "S2") if vals.get(f"{t}_subscribed")]
        if len(pre) == 2 and vals.get("S2_before_S1"):
            pre.reverse()
        for t in pre:
            self.S.subscriptions.append(self.info[t])
            self.S.last_checked_subscriptions_time[self.info[t]] = LC.TimestampIts(0)
        for a in APPS:
            if vals[f"consumer_{a}_registered"]:
                self.S.data_consumer_its_aid.add(a)
            if vals[f"provider_{a}_registered"]:
                self.S.data_provider_its_aid.add(a)

    def state(self):
        g = lambda n: object.__getattribute__(self.S, n)
        names = {id(v): k for k, v in self.info.items()}

        def nm(s):
            for t in SUBS:
                if s == self.info[t]:
                    return t
            return "?"
        return ([nm(s) for s in g("subscriptions")], sorted(g("data_consumer_its_aid")), sorted(g("data_provider_its_aid")))


def _resp(x):
    """comparable rendering of a real response"""
    if x is None or isinstance(x, (bool, int)):
        return x
    if isinstance(x, (set, frozenset)):
        return tuple(sorted(x))
    d = getattr(x, "__dict__", None)
    if d is not None:
        return tuple((k, _resp(v)) for k, v in sorted(d.items()) if k not in ("error_message",))
    if isinstance(x, (tuple, list)):
        return tuple(_resp(e) for e in x)
    return repr(x)


def _svc_ops(st):
    """name -> (function, symbolic receiver+args, real call, result kind)"""
    So, if3o, if4o = st["So"], st["if3o"], st["if4o"]
    reqs, cbs = st["reqs"], st["cbs"]
    E = st["E"]
    hid = {t: E.stubs[hash](E, [reqs[t]], {}, TRUE) for t in st["OLD"]}
    ops = {}
    for t in [t for t in st["SUBS"] if t.startswith("N")]:
        ops["subscribe_" + t] = (LDMService.store_new_subscription_petition, [So, reqs[t], cbs[t]],
                                 lambda R, t=t: R.S.store_new_subscription_petition(R.req[t], R.cb[t]) == hash(R.req[t]), "drop")
        ops["if4_subscribe_" + t] = (InterfaceLDM4.subscribe_data_consumer, [if4o, reqs[t], cbs[t]],
                                     lambda R, t=t: int(R.if4.subscribe_data_consumer(R.req[t], R.cb[t]).result), "result")
    for t in st["OLD"]:
        ops["unsubscribe_" + t] = (LDMService.delete_subscription, [So, hid[t]], lambda R, t=t: R.S.delete_subscription(hash(R.req[t])), "tok")
    ops["attend"] = (LDMService.attend_subscriptions, [So], lambda R: R.S.attend_subscriptions(), "drop")
    for a in APPS:
        ops[f"register_consumer_{a}"] = (LDMService.add_data_consumer_its_aid, [So, a], lambda R, a=a: R.S.add_data_consumer_its_aid(a), "drop")
        ops[f"deregister_consumer_{a}"] = (LDMService.del_data_consumer_its_aid, [So, a], lambda R, a=a: R.S.del_data_consumer_its_aid(a), "drop")
        ops[f"if4_deregister_consumer_{a}"] = (InterfaceLDM4.deregister_data_consumer, [if4o, Obj(LC.DeregisterDataConsumerReq, dict(application_id=a))],
                                               lambda R, a=a: int(R.if4.deregister_data_consumer(LC.DeregisterDataConsumerReq(a)).ack), "ack")
        ops[f"if3_deregister_provider_{a}"] = (InterfaceLDM3.deregister_data_provider, [if3o, Obj(LC.DeregisterDataProviderReq, dict(application_id=a))],
                                               lambda R, a=a: int(R.if3.deregister_data_provider(LC.DeregisterDataProviderReq(a)).result), "result")
        ops[f"if3_register_provider_{a}"] = (InterfaceLDM3.register_data_provider,
                                             [if3o, Obj(LC.RegisterDataProviderReq, dict(application_id=a, access_permissions=_tuple([(TRUE, a)]), time_validity=None))],
                                             lambda R, a=a: int(R.if3.register_data_provider(LC.RegisterDataProviderReq(a, (a,), LC.TimeValidity(1))).result), "result")
    ops["consumers"] = (LDMService.get_data_consumer_its_aid, [So], lambda R: tuple(sorted(R.S.get_data_consumer_its_aid())), "set")
    return ops


def _svc_obs(E, ret, kind):
    if kind == "drop":
        return []
    if kind == "set":
        return SetS(APPS).flat(E, ret)
    if kind in ("result", "ack"):
        f = "result" if kind == "result" else "ack"
        v = E.getattr(ret, f, TRUE)
        from .c12 import enum_is
        if isinstance(v, Guarded) or not isinstance(v, z3.ExprRef):
            try:
                return [E.tok(E.getattr(v, "value", TRUE))]
            except Exception:
                pass
        return [E.tok(v)]
    return [E.tok(ret)]


# (combination, tiers, small subscription universe)
SVC = [
    (("subscribe_N1", "unsubscribe_S1", "subscribe_N2"), ("quick", "thorough"), False),
    (("if4_deregister_consumer_2", "if4_deregister_consumer_2'", "consumers"), ("quick", "thorough"), False),
    (("if3_deregister_provider_2", "if3_deregister_provider_2'", "if3_register_provider_16"), ("quick", "thorough"), False),
    (("if4_subscribe_N1", "deregister_consumer_2", "unsubscribe_S2"), ("quick", "thorough"), False),
    (("unsubscribe_S1", "unsubscribe_S1'", "subscribe_N1"), ("quick", "thorough"), False),
    (("register_consumer_2", "if4_deregister_consumer_2", "if4_subscribe_N1"), ("quick", "thorough"), False),
    (("if4_subscribe_N1", "if4_subscribe_N2", "if4_deregister_consumer_16"), ("quick", "thorough"), False),
    # attendance passes: pairs in both tiers, triples (minutes each) in the thorough tier
    (("attend", "unsubscribe_S1"), ("quick", "thorough"), False),
    (("attend", "subscribe_N1"), ("quick", "thorough"), True),
    (("attend", "subscribe_N1", "unsubscribe_S2"), ("thorough",), True),
    (("attend", "deregister_consumer_2"), ("quick", "thorough"), False),
    (("attend", "if4_deregister_consumer_2"), ("quick", "thorough"), False),
    (("attend", "attend'"), ("quick", "thorough"), True),
    (("attend", "register_consumer_2", "if4_subscribe_N1"), ("quick", "thorough"), True),
    (("attend", "deregister_consumer_2", "subscribe_N1"), ("thorough",), True),
    (("attend", "unsubscribe_S1", "subscribe_N1"), ("thorough",), True),
    (("unsubscribe_S1", "unsubscribe_S2", "attend"), ("thorough",), True),
    (("subscribe_N1", "subscribe_N2", "attend"), ("thorough",), True),
    (("attend", "attend'", "unsubscribe_S1"), ("thorough",), True),
]


def _universe(combo, small):
    """subscriptions of the VC: those its operations name, plus - unless `small` - both possible earlier subscriptions"""
    named = [t for t in SUBS if any(nm.rstrip("'").endswith("_" + t) for nm in combo)]
    if small:
        if not any(t.startswith("S") for t in named) and len(named) < 2:
            named = ["S1"] + named
        return [t for t in SUBS if t in named]
    return [t for t in SUBS if t in named or t.startswith("S")]


def _svc_vc(ctx, combo, small=False):
    st = {}
    subs = _universe(combo, small)
    tag = "Y2[" + "|".join(combo) + "]"
    base = lambda nm: nm.rstrip("'")

    def build(E):
        st.clear()
        st["E"] = E
        S, So = _svc_env(E, st, subs)
        st["ops"] = _svc_ops(st)
        extra = [(l, n) for l, n in st["if_locks"] if l is not None]
        return dict(threads=[(nm, st["ops"][base(nm)][0], list(st["ops"][base(nm)][1])) for nm in combo], locks=[S._lock] + [l for l, n in extra],
                    lock_names=["_lock"] + [n for l, n in extra])
    il = Ilv(build, unroll=len(subs) + 1).run()
    il.cons = il.encode()
    E = il.E
    ops = st["ops"]
    obs = []
    for nm in combo:
        obs += _svc_obs(E, il.rets[nm][0], ops[base(nm)][3])
    for f in ("subscriptions", "data_consumer_its_aid", "data_provider_its_aid"):
        obs += il.final(st["So"], f)
    # how often each callback was invoked
    for t in subs:
        obs.append(sum([z3.If(c, 1, 0) for c, i in st["calls"][t]]) if st["calls"][t] else z3.IntVal(0))
    exc = z3.Or(*[c for nm in combo for c, k in il.rets[nm][1]]) if any(il.rets[nm][1] for nm in combo) else FALSE
    vars_ = st["vars"]

    PASS_STEPS = ("get_data_consumer_its_aid", "remove_subscription")

    def starts_unit(b):
        """an attendance pass is a sequence of per-subscription steps (check the consumer + notify; remove): each step is atomic
        in the reference executions, the pass as a whole is not (a pass never ends in the threaded service)"""
        return base(b.thread) == "attend" and b.fn in PASS_STEPS

    def unit_start_real(name, what):
        return base(name) == "attend" and any(what.endswith(" in " + f) for f in PASS_STEPS)

    def run_real(vals, order=None):
        R = _RealSvc(vals)
        sched = Scheduler(vals["schedule"]) if order is None else UnitScheduler(order, unit_start_real)
        gate_object(R.S, {"subscriptions": "_lock", "last_checked_subscriptions_time": "_lock", "data_consumer_its_aid": "_lock", "data_provider_its_aid": "_lock"},
                    sched, il.und_names if order is None else set())
        for o, n in ((R.if3, "if3._deregistration_lock"), (R.if4, "if4._deregistration_lock")):
            if hasattr(o, "_deregistration_lock"):
                o._deregistration_lock = GateLock(o._deregistration_lock, sched, n)
        res, sched = run_schedule(sched.order, {nm: (lambda nm=nm: ops[base(nm)][2](R)) for nm in combo}, sched)
        return R, res, sched

    def view(R, res):
        return ({nm: _resp(res[nm][1]) for nm in combo if ops[base(nm)][3] != "drop"}, R.state(), sorted(R.notified))

    def reference_views(vals):
        seen = []
        for units in il.reference_orders(starts_unit):
            order = [u[0].thread for u in units]
            if order in seen:
                continue
            seen.append(order)
            R2, res2, s2 = run_real(vals, order)
            if s2.failed:
                raise RuntimeError("reference execution did not complete: " + s2.failed)
            yield order, view(R2, res2)

    def replay(vals):
        R, res, sched = run_real(vals)
        if sched.failed:
            return False, "replay scheduler: " + sched.failed
        errs = [f"{n} raised {r[1]!r}" for n, r in res.items() if r[0] == "raised"]
        got = view(R, res)
        explained = [o for o, v in reference_views(vals) if v == got][:1]
        bad = bool(errs) or not explained
        return bad, f"concurrent {combo} from {vals}: responses {got[0]}, subscriptions {got[1][0]}, consumers {got[1][1]}, providers {got[1][2]}, notified {got[2]} {errs}; " + \
            ("explained by no reference execution (operations atomic, an attendance pass as a sequence of atomic per-subscription steps)" if not explained
             else f"explained by {explained[0]}") + f" (switch points {sched.trace})"
    def replay_kept(t, b):
        def rp(vals):
            R, res, sched = run_real(vals)
            if sched.failed:
                return False, "replay scheduler: " + sched.failed
            nm = [n for n in combo if base(n) == b][0]
            ok_ = (res[nm][1] == int(LC.SubscribeDataobjectsResult.SUCCESSFUL)) if b.startswith("if4_") else True
            kept = t in R.state()[0]
            return bool(ok_ and not kept), f"concurrent {combo} from {vals}: subscription {t} accepted={ok_}, consumers {R.state()[1]}, stored afterwards={kept} " \
                f"(subscriptions {R.state()[0]}, switch points {sched.trace})"
        return rp
    feasible(ctx, il, tag + "-some-schedule")
    # every operation of the combination can take effect (otherwise the comparison with the reference executions says nothing about it)
    fsub = il.final(st["So"], "subscriptions")
    fcon = il.final(st["So"], "data_consumer_its_aid")
    fpro = il.final(st["So"], "data_provider_its_aid")
    in_final = lambda t: z3.Or(*[z3.And(fsub[0] > i, fsub[1 + i] == subs.index(t) + 1) for i in range(len(subs))])
    for nm in dict.fromkeys(base(n) for n in combo):
        t = nm.split("_")[-1]
        if nm.startswith("unsubscribe_"):
            feasible(ctx, il, f"{tag}-{nm}-can-remove", z3.And(st["has"][t], z3.Not(in_final(t))))
        elif "subscribe_N" in nm:
            feasible(ctx, il, f"{tag}-{nm}-can-store", in_final(t))
        elif nm.startswith(("deregister_consumer", "if4_deregister_consumer")):
            a = int(t)
            feasible(ctx, il, f"{tag}-{nm}-can-remove", z3.And(st["reg"][a], z3.Not(fcon[APPS.index(a)])))
        elif nm.startswith("if3_deregister_provider"):
            a = int(t)
            feasible(ctx, il, f"{tag}-{nm}-can-remove", z3.And(st["preg"][a], z3.Not(fpro[APPS.index(a)])))
        elif nm.startswith(("register_consumer",)):
            a = int(t)
            feasible(ctx, il, f"{tag}-{nm}-can-add", z3.And(z3.Not(st["reg"][a]), fcon[APPS.index(a)]))
        elif nm.startswith("if3_register_provider"):
            a = int(t)
            feasible(ctx, il, f"{tag}-{nm}-can-add", z3.And(z3.Not(st["preg"][a]), fpro[APPS.index(a)]))
        elif nm == "attend":
            feasible(ctx, il, f"{tag}-attend-can-notify", z3.Or(*[c for t2 in subs for c, i in st["calls"][t2]]) if any(st["calls"][t2] for t2 in subs) else FALSE)
            old_ = [t2 for t2 in subs if t2.startswith("S") and ("unsubscribe_" + t2) not in [base(n2) for n2 in combo]]
            if old_:
                feasible(ctx, il, f"{tag}-attend-can-remove", z3.And(st["has"][old_[0]], z3.Not(in_final(old_[0]))))
    solve(ctx, il, tag + "-no-exception", exc, vars=vars_, replay=replay)
    if ctx.tier == "quick" and len(combo) >= 3 and "attend" in [base(n) for n in combo]:
        ctx.bound(f"{tag}: the comparison with the reference executions of this three-actor combination with an attendance pass takes minutes and is asked in the "
                  "thorough tier only; the quick tier decides exception freedom and the subscription-retention statement")
    else:
        solve(ctx, il, tag + "-linearizable", il.not_linearizable(obs, starts_unit=starts_unit), vars=vars_, replay=replay,
              desc="responses, subscription list, registries and callback invocations of the concurrent run equal those of some reference execution "
                   "(every operation atomic; an attendance pass = its per-subscription steps, each atomic)")
        ctx.bound(f"{tag}: {il.n_reference_orders} reference executions")
    # "subscriptions are neither lost": a subscription that was accepted, whose consumer nobody deregisters and which nobody cancels, is still stored
    # at the end - also when an attendance pass (whose reference executions are only per-step atomic) runs at the same time
    bases = [base(n) for n in combo]
    for nm in combo:
        b = base(nm)
        if "subscribe_N" not in b:
            continue
        t = b.split("_")[-1]
        app = SUB_APP[t]
        if any(x in bases for x in (f"deregister_consumer_{app}", f"if4_deregister_consumer_{app}", "unsubscribe_" + t)):
            continue
        if b.startswith("if4_"):
            res = _svc_obs(E, il.rets[nm][0], "result")[0]
            accepted = res == int(LC.SubscribeDataobjectsResult.SUCCESSFUL)
        else:
            accepted = st["reg"][app] if f"register_consumer_{app}" not in bases else FALSE
        solve(ctx, il, f"{tag}-{b}-accepted-subscription-kept", z3.And(accepted, z3.Not(in_final(t))), vars=vars_, replay=replay_kept(t, b),
              desc="an accepted subscription of a consumer that stays registered is in the subscription list afterwards")
    no_deadlock(ctx, il, tag)
    bounds_ok(ctx, il, tag)
    note_blocks(ctx, il, " || ".join(combo) + " on LDMService / IF.LDM.3 / IF.LDM.4 (subscription universe " + ",".join(subs) + ")")
    return il, st


def _register_svc_vcs():
    for combo, tiers, small in SVC:
        def fn(ctx, combo=combo, small=small):
            _svc_vc(ctx, combo, small=small)
            ctx.bound("service state: the subscriptions named by the operations" + ("" if small else " and both possible earlier subscriptions") +
                      " (each earlier one present or not, either order), consumer and provider registries over two ITS-AIDs, each registered or not; operations: "
                      + " || ".join(combo))
            ctx.stub("search_data returns one matching object (search decided in C13/C14); the clock is one symbolic instant; subscriptions carry no notification interval / "
                     "multiplicity (cadence is C14); hash(request) is the injective uninterpreted function of C14; the last-notification map is shared state but not part of "
                     "the compared observation (it is not observable through IF.LDM.4)")
        fn.__doc__ = "linearizability of " + " || ".join(combo) + " on LDMService / IF.LDM.3 / IF.LDM.4 from an arbitrary registry and subscription state"
        vc("C16", "Y2-service-linearizable[" + "|".join(combo) + "]", tiers)(fn)


_register_svc_vcs()


# ---------------------------------------------------------------------------------------------- Y3 maintenance thread: wrappers and garbage collection
from flexstack.facilities.local_dynamic_map.ldm_maintenance_thread import LDMMaintenanceThread
from flexstack.facilities.local_dynamic_map.ldm_maintenance_reactive import LDMMaintenanceReactive
from flexstack.utils.time_service import TimeService, ITS_EPOCH, ELAPSED_SECONDS

RECS = ["Ra", "Rb", "Rn", "Ru"]          # two stored beforehand, one added, one update content


class DictRefS(RefS):
    """reference to one of a fixed universe of stored dictionaries, observed by content (timestamp, validity, payload)"""

    def __init__(self, recs, leaves):
        super().__init__(recs)
        self.leaves = leaves          # per record: [timestamp, validity, payload] terms

    def flat(self, E, v):
        idx = self.index(E, v)
        out = []
        for j in range(3):
            t = z3.IntVal(0)
            for k in reversed(range(len(self.objs))):
                t = z3.If(idx == k + 1, self.leaves[k][j], t)
            out.append(t)
        return out

    def width(self):
        return 3


def _maint_env(E, st, two_new=False):
    import unittest.mock as mock
    D = DictionaryDataBase()
    M = LDMMaintenanceThread.__new__(LDMMaintenanceThread)
    LDMMaintenance.__init__(M, None, D)
    M.data_containers_lock = threading.Lock()
    M.stop_event = threading.Event()
    Do, Mo = E.lift(D), E.lift(M)
    Mo.fields["data_containers"] = Do
    from ..facil import logger
    Mo.fields["logging"] = logger(E)
    leaves, recs = [], []
    for t in RECS:
        ts, tv, pl = z3.Int(f"{t}_timestamp"), z3.Int(f"{t}_validity"), z3.Int(f"{t}_payload")
        E.assumptions += [ts >= 0, ts <= 2 ** 42, tv >= 0, tv <= 10 ** 6, pl >= 0, pl <= 3]
        leaves.append([ts, tv, pl])
        recs.append(SDict([(TRUE, "timestamp", ts, False), (TRUE, "timeValidity", tv, False), (TRUE, "payload", pl, False)]))
    n0, ka, kb = z3.Int("next_id"), z3.Int("id_a"), z3.Int("id_b")
    ha, hb = z3.Bool("a_present"), z3.Bool("b_present")
    E.assumptions += [ka >= 0, ka < kb, kb < n0, n0 <= 1000]
    keys = [ka, kb, n0]
    if two_new:
        # variant for two concurrent adds: one earlier record, the two new identifiers tracked
        keys = [ka, n0 + 1, n0]
        E.assumptions.append(z3.Not(hb))
    shape = DictRefS(recs, leaves)
    Do.fields["database"] = SDict([(ha, ka, recs[0], False)] + ([] if two_new else [(hb, kb, recs[1], False)]))
    Do.fields["_next_id"] = n0
    flag0 = z3.Int("new_data_flag")
    E.assumptions += [flag0 >= 0, flag0 <= 1]
    Mo.fields["new_data_recieved_flag"] = flag0
    E.share(Do, "database", MapS(keys, shape), "_lock")
    E.share(Do, "_next_id", IntS(), "_lock")
    E.share(Mo, "new_data_recieved_flag", IntS(), "data_containers_lock")
    now = z3.Real("now_s")
    E.assumptions += [now >= 1.6e9, now <= 2.3e9]
    E.stubs[TimeService.time] = lambda it, a, k, pc: now
    # the area-of-maintenance sweep is decided in C12 (and is a recorded finding there); here only the time-validity part of the pass
    E.stubs[LDMMaintenance.check_and_delete_area_of_maintenance] = lambda it, a, k, pc: []
    E.stubs[LC.AddDataProviderReq.to_dict] = lambda it, a, k, pc: recs[2]
    E.stubs[LC.RequestDataObjectsReq.filter_out_by_data_object_type] = lambda it, a, k, pc: a[0]
    now_its = (z3.ToInt(now) - ITS_EPOCH + ELAPSED_SECONDS) * 1000
    expired = [lv[1] * 1000 + lv[0] < now_its for lv in leaves]
    v = {"next_id": n0, "id_a": ka, "id_b": kb, "a_present": ha, "b_present": hb, "new_data_flag": flag0, "now_s": now}
    for t, lv in zip(RECS, leaves):
        v.update({f"{t}_timestamp": lv[0], f"{t}_validity": lv[1], f"{t}_payload": lv[2]})
    st.update(D=D, M=M, Do=Do, Mo=Mo, recs=recs, leaves=leaves, keys=keys, n0=n0, ka=ka, kb=kb, ha=ha, hb=hb, now=now, expired=expired, vars=v, shape=shape,
              inputs=[now] + [x for lv in leaves for x in lv])
    return M, Mo


def _real_rec(vals, t):
    return {"timestamp": vals[f"{t}_timestamp"], "timeValidity": vals[f"{t}_validity"], "payload": vals[f"{t}_payload"]}


class _RealMaint:
    def __init__(self, vals):
        from unittest import mock
        self.D = DictionaryDataBase()
        M = LDMMaintenanceThread.__new__(LDMMaintenanceThread)
        LDMMaintenance.__init__(M, None, self.D)
        M.data_containers_lock = threading.Lock()
        M.stop_event = threading.Event()
        M.check_and_delete_area_of_maintenance = lambda: []
        self.M = M
        if vals["a_present"]:
            self.D.database[vals["id_a"]] = _real_rec(vals, "Ra")
        if vals["b_present"]:
            self.D.database[vals["id_b"]] = _real_rec(vals, "Rb")
        self.D._next_id = vals["next_id"]
        M.new_data_recieved_flag = vals["new_data_flag"]
        self.vals = vals

    def state(self):
        g = object.__getattribute__
        return (dict(g(self.D, "database")), g(self.D, "_next_id"), g(self.M, "new_data_recieved_flag"))


def _now_float(vals):
    v = vals["now_s"]
    if isinstance(v, str):
        from fractions import Fraction
        return float(Fraction(v.rstrip("?")))
    return float(v)


MAINT_OPS = {
    "gc": (LDMMaintenanceThread.collect_trash, lambda st: [], lambda R: R.M.collect_trash(), "drop"),
    "add": (LDMMaintenanceThread.add_provider_data, lambda st: [Obj(LC.AddDataProviderReq, {})],
            lambda R: R.M.add_provider_data(type("Req", (), {"to_dict": lambda self: _real_rec(R.vals, "Rn")})()), "tok"),
    "update_a": (LDMMaintenanceThread.update_provider_data, lambda st: [st["ka"], st["recs"][3]], lambda R: R.M.update_provider_data(R.vals["id_a"], _real_rec(R.vals, "Ru")), "drop"),
    "del_a": (LDMMaintenanceThread.del_provider_data, lambda st: [st["recs"][0]], lambda R: R.M.del_provider_data(_real_rec(R.vals, "Ra")), "drop"),
    "get_a": (LDMMaintenanceThread.get_provider_data, lambda st: [st["ka"]], lambda R: R.M.get_provider_data(R.vals["id_a"]), "rec"),
    "all": (LDMMaintenanceThread.get_all_data_containers, lambda st: [], lambda R: R.M.get_all_data_containers(), "recs"),
    "search": (LDMMaintenanceThread.search_data_containers,
               lambda st: [Obj(LC.RequestDataObjectsReq, dict(application_id=1, data_object_type=(2,), priority=None, order=None, filter=None))],
               lambda R: R.M.search_data_containers(LC.RequestDataObjectsReq(application_id=1, data_object_type=(), priority=None, order=None, filter=None)), "recs"),
    "new_data": (LDMMaintenanceThread.check_new_data_recieved, lambda st: [], lambda R: R.M.check_new_data_recieved(), "tok"),
}

MAINT = [
    (("gc", "add", "update_a"), ("quick", "thorough")),
    (("gc", "del_a", "get_a"), ("quick", "thorough")),
    (("gc", "all", "add"), ("quick", "thorough")),
    (("add", "new_data", "new_data'"), ("quick", "thorough")),
    (("update_a", "del_a", "search"), ("quick", "thorough")),
    (("gc", "gc'"), ("quick", "thorough")),
    (("gc", "gc'", "add"), ("thorough",)),
    (("gc", "update_a", "del_a"), ("thorough",)),
    (("add", "add'", "all"), ("thorough",)),
]


def _maint_vc(ctx, combo):
    st = {}
    tag = "Y3[" + "|".join(combo) + "]"
    base = lambda nm: nm.rstrip("'")

    def build(E):
        st.clear()
        M, Mo = _maint_env(E, st)
        return dict(threads=[(nm, MAINT_OPS[base(nm)][0], [Mo] + MAINT_OPS[base(nm)][1](st)) for nm in combo],
                    locks=[M.data_containers_lock, st["D"]._lock], lock_names=["data_containers_lock", "_lock"])
    il = Ilv(build, unroll=5).run()
    il.cons = il.encode()
    E = il.E
    shape = st["shape"]
    obs = []
    for nm in combo:
        kind = MAINT_OPS[base(nm)][3]
        r = il.rets[nm][0]
        if kind == "tok":
            obs.append(E.tok(r))
        elif kind == "rec":
            obs += [z3.If(E.identical(r, None), 1, 0) if not isinstance(E.identical(r, None), bool) else z3.IntVal(int(E.identical(r, None)))] + shape.flat(E, r)
        elif kind == "recs":
            obs += ListS(4, shape).flat(E, r)
    fdb = il.final(st["Do"], "database")
    obs += fdb + il.final(st["Do"], "_next_id") + il.final(st["Mo"], "new_data_recieved_flag")
    exc = z3.Or(*[c for nm in combo for c, k in il.rets[nm][1]]) if any(il.rets[nm][1] for nm in combo) else FALSE
    vars_ = st["vars"]
    GC_STEPS = ("get_all_data_containers", "del_provider_data")

    def starts_unit(b):
        """a garbage-collection pass is a sequence of locked steps (snapshot; one removal per lapsed object): each step is atomic in
        the reference executions, the pass as a whole is not"""
        return base(b.thread) == "gc" and b.fn in GC_STEPS

    def unit_start_real(name, what):
        return base(name) == "gc" and what.startswith("acquire data_containers_lock")

    def run_real(vals, order=None):
        from unittest import mock
        R = _RealMaint(vals)
        sched = Scheduler(vals["schedule"]) if order is None else UnitScheduler(order, unit_start_real)
        und = il.und_names if order is None else set()
        gate_object(R.D, {"database": "_lock", "_next_id": "_lock"}, sched, und)
        gate_object(R.M, {"new_data_recieved_flag": "data_containers_lock"}, sched, und)
        with mock.patch.object(TimeService, "time", staticmethod(lambda: _now_float(vals))), \
                mock.patch.object(LC.RequestDataObjectsReq, "filter_out_by_data_object_type", staticmethod(lambda objs, types: objs)):
            res, sched = run_schedule(sched.order, {nm: (lambda nm=nm: MAINT_OPS[base(nm)][2](R)) for nm in combo}, sched)
        return R, res, sched

    def view(R, res):
        return ({nm: res[nm][1] for nm in combo if MAINT_OPS[base(nm)][3] != "drop"}, R.state())

    def replay(vals):
        R, res, sched = run_real(vals)
        if sched.failed:
            return False, "replay scheduler: " + sched.failed
        errs = [f"{n} raised {r[1]!r}" for n, r in res.items() if r[0] == "raised"]
        got = view(R, res)
        explained = []
        seen = []
        for units in il.reference_orders(starts_unit):
            order = [u[0].thread for u in units]
            if order in seen:
                continue
            seen.append(order)
            R2, res2, s2 = run_real(vals, order)
            if s2.failed:
                raise RuntimeError("reference execution did not complete: " + s2.failed)
            if view(R2, res2) == got:
                explained.append(order)
                break
        bad = bool(errs) or not explained
        return bad, f"concurrent {combo} from {vals}: results {got[0]}, final store {got[1][0]}, allocator {got[1][1]}, new-data flag {got[1][2]} {errs}; " + \
            ("explained by no reference execution (operations atomic, a garbage-collection pass as a sequence of atomic locked steps)" if not explained
             else f"explained by {explained[0]}") + f" (switch points {sched.trace})"
    feasible(ctx, il, tag + "-some-schedule")
    keys = st["keys"]
    at = lambda key: [z3.And(*[z3.Implies(keys[i] == key, c) for i in range(len(keys))]) for c in ()]
    present_a = fdb[0]
    if "gc" in [base(n) for n in combo]:
        feasible(ctx, il, tag + "-gc-can-remove", z3.And(st["ha"], st["expired"][0], z3.Not(present_a)))
        if not any(base(n) in ("del_a", "update_a") for n in combo):
            feasible(ctx, il, tag + "-gc-can-keep", z3.And(st["ha"], z3.Not(st["expired"][0]), present_a))
    solve(ctx, il, tag + "-no-exception", exc, vars=vars_, replay=replay)
    names = [base(n) for n in combo]
    if "gc" not in names:
        solve(ctx, il, tag + "-linearizable", il.not_linearizable(obs, inputs=st["inputs"], starts_unit=starts_unit), vars=vars_, replay=replay,
              desc="results, final store, allocator and new-data flag equal those of some serial order of the operations")
        ctx.bound(f"{tag}: {il.n_reference_orders} reference executions")
    else:
        ctx.bound(f"{tag}: a garbage-collection pass is a sequence of locked steps, not one atomic operation; with a pass among the actors the VC decides the "
                  "object-preservation statements below and exception freedom (atomicity of the other operations among themselves: the combinations without a pass)")
        # whatever the interleaving, every stored object at the end is one of the objects that were stored or written by an operation (nothing invented, nothing duplicated)
        for ki in range(len(st["keys"])):
            o = ki * 4
            legal = z3.Or(*[z3.And(*[fdb[o + 1 + j] == st["leaves"][r][j] for j in range(3)]) for r in range(4)])
            solve(ctx, il, tag + f"-stored-objects-are-written-ones[{ki}]", z3.And(fdb[o], z3.Not(legal)), vars=vars_, replay=replay)
        if not any(n in names for n in ("update_a", "del_a")):
            solve(ctx, il, tag + "-lapsed-object-removed-by-the-pass", z3.And(st["ha"], st["expired"][0], present_a, *[fdb[1 + j] == st["leaves"][0][j] for j in range(3)],
                                                                            names.count("gc") == 1 and TRUE or TRUE),
                  vars=vars_, replay=replay, desc="an object that is stored and lapsed when the pass starts is gone when it ends")
    if "gc" in names and not any(n in names for n in ("update_a", "del_a")):
        solve(ctx, il, tag + "-valid-object-survives-the-pass", z3.And(st["ha"], z3.Not(st["expired"][0]),
                                                                         z3.Not(z3.And(present_a, *[fdb[1 + j] == st["leaves"][0][j] for j in range(3)]))),
              vars=vars_, replay=replay, desc="an object whose validity has not lapsed is still stored, unchanged, after a garbage-collection pass racing with the other operations")
    if "add" in names:
        rid = E.tok(il.rets[[n for n in combo if base(n) == "add"][0]][0])
        off = 2 * 4          # third key (the allocator value) in the flattened map: per key 1 presence + 3 content terms
        stored_new = z3.And(rid == st["n0"], fdb[off], *[fdb[off + 1 + j] == st["leaves"][2][j] for j in range(3)])
        if names.count("add") == 1:
            solve(ctx, il, tag + "-added-object-not-lost", z3.And(z3.Not(st["expired"][2]), z3.Not(stored_new)), vars=vars_, replay=replay,
                  desc="an object added while the other operations run, and whose validity has not lapsed, is stored under the identifier returned to the provider")
    no_deadlock(ctx, il, tag, hang=lambda: hangs(lambda: MAINT_OPS[base(combo[0])][2](_RealMaint({k: (False if k.endswith("present") else 0) for k in list(vars_) } | {"now_s": 1.7e9, "next_id": 1}))))
    bounds_ok(ctx, il, tag)
    note_blocks(ctx, il, " || ".join(combo) + " on LDMMaintenanceThread over the in-memory back-end")
    ctx.bound("store: two records under symbolic identifiers (each present or not) with symbolic timestamp / validity / payload, one added record, one update content; "
              "one symbolic clock instant; operations: " + " || ".join(combo))
    ctx.stub("area-of-maintenance sweep is a no-op here (decided in C12); TimeService.time returns one symbolic instant; AddDataProviderReq.to_dict returns the added record; "
             "type selection of an unfiltered search is the identity (C13)")


def _register_maint_vcs():
    for combo, tiers in MAINT:
        def fn(ctx, combo=combo):
            _maint_vc(ctx, combo)
        fn.__doc__ = "linearizability and object-preservation of " + " || ".join(combo) + " on the threaded maintenance"
        vc("C16", "Y3-maintenance-linearizable[" + "|".join(combo) + "]", tiers)(fn)


_register_maint_vcs()


# ---------------------------------------------------------------------------------------------- Y4 IF.LDM.3 / IF.LDM.4 data path over service, maintenance and back-end
def _full_env(E, st):
    """IF.LDM.3 / IF.LDM.4 on an LDMService whose maintenance is the threaded one over the in-memory back-end: arbitrary store and registries"""
    M, Mo = _maint_env(E, st)
    st2 = {}
    S, So = _svc_env(E, st2, subs=["S1"])
    So.fields["ldm_maintenance"] = Mo
    E.stubs.pop(LC.RequestDataObjectsResp, None)          # here the response object is the subject
    E.stubs.pop(LDMService.search_data, None)
    E.stubs.pop(LC.TimestampIts.initialize_with_utc_timestamp_seconds, None)          # the garbage collection reads the real clock conversion (TimeService.time is the stub)
    for k in ("S", "So", "if3o", "if4o", "reg", "preg", "if_locks"):
        st[k] = st2[k]
    st["vars"] = dict(st["vars"], **{k: v for k, v in st2["vars"].items() if "registered" in k})
    return M, Mo, S, So


class _RealFull:
    def __init__(self, vals):
        self.maint = _RealMaint(vals)
        self.M, self.D = self.maint.M, self.maint.D
        self.S = LDMService(self.M)
        self.if3, self.if4 = InterfaceLDM3(self.S), InterfaceLDM4(self.S)
        for a in APPS:
            if vals.get(f"consumer_{a}_registered"):
                self.S.data_consumer_its_aid.add(a)
            if vals.get(f"provider_{a}_registered"):
                self.S.data_provider_its_aid.add(a)
        self.vals = vals

    def state(self):
        g = object.__getattribute__
        return self.maint.state() + (sorted(g(self.S, "data_consumer_its_aid")), sorted(g(self.S, "data_provider_its_aid")))


def _add_req(R):
    return type("Req", (), {"application_id": APPS[0], "to_dict": lambda self: _real_rec(R.vals, "Rn")})()


FULL_OPS = {
    "if3_add": (InterfaceLDM3.add_provider_data, lambda st: [st["if3o"], Obj(LC.AddDataProviderReq, dict(application_id=APPS[0]))],
                lambda R: R.if3.add_provider_data(_add_req(R)).data_object_id, "id"),
    "if4_request": (InterfaceLDM4.request_data_objects,
                    lambda st: [st["if4o"], Obj(LC.RequestDataObjectsReq, dict(application_id=APPS[0], data_object_type=(2,), priority=None, order=None, filter=None))],
                    lambda R: (lambda r: (int(r.result), tuple(r.data_objects)))(R.if4.request_data_objects(
                        LC.RequestDataObjectsReq(application_id=APPS[0], data_object_type=(), priority=None, order=None, filter=None))), "resp"),
    "if3_deregister_provider": (InterfaceLDM3.deregister_data_provider, lambda st: [st["if3o"], Obj(LC.DeregisterDataProviderReq, dict(application_id=APPS[0]))],
                                lambda R: int(R.if3.deregister_data_provider(LC.DeregisterDataProviderReq(APPS[0])).result), "result"),
    "if4_deregister_consumer": (InterfaceLDM4.deregister_data_consumer, lambda st: [st["if4o"], Obj(LC.DeregisterDataConsumerReq, dict(application_id=APPS[0]))],
                                lambda R: int(R.if4.deregister_data_consumer(LC.DeregisterDataConsumerReq(APPS[0])).ack), "ack"),
    "gc": (LDMMaintenanceThread.collect_trash, lambda st: [st["Mo"]], lambda R: R.M.collect_trash(), "drop"),
    "del_a": (LDMMaintenanceThread.del_provider_data, lambda st: [st["Mo"], st["recs"][0]], lambda R: R.M.del_provider_data(_real_rec(R.vals, "Ra")), "drop"),
}

FULL = [
    (("if3_add", "if4_request", "if3_deregister_provider"), ("quick", "thorough")),
    (("if3_add", "if3_add'", "if4_request"), ("quick", "thorough")),
    (("if4_request", "if4_deregister_consumer", "del_a"), ("quick", "thorough")),
    (("if4_request", "gc", "if3_add"), ("quick", "thorough")),
    (("if4_request", "if4_request'", "if3_add"), ("thorough",)),
]


def _full_vc(ctx, combo):
    st = {}
    tag = "Y4[" + "|".join(combo) + "]"
    base = lambda nm: nm.rstrip("'")
    names = [base(n) for n in combo]

    def build(E):
        st.clear()
        M, Mo, S, So = _full_env(E, st)
        extra = [(l, n) for l, n in st["if_locks"] if l is not None]
        return dict(threads=[(nm, FULL_OPS[base(nm)][0], list(FULL_OPS[base(nm)][1](st))) for nm in combo],
                    locks=[M.data_containers_lock, st["D"]._lock, S._lock] + [l for l, n in extra],
                    lock_names=["data_containers_lock", "_lock(db)", "_lock(service)"] + [n for l, n in extra])
    il = Ilv(build, unroll=5).run()
    il.cons = il.encode()
    E = il.E
    shape = st["shape"]
    obs, resp_lists = [], {}
    for nm in combo:
        kind = FULL_OPS[base(nm)][3]
        r = il.rets[nm][0]
        if kind == "id":
            obs.append(E.tok(E.getattr(r, "data_object_id", TRUE)))
        elif kind in ("result", "ack"):
            obs += _svc_obs(E, r, kind)
        elif kind == "resp":
            obs += _svc_obs(E, r, "result")
            fl = ListS(4, shape).flat(E, E.getattr(r, "data_objects", TRUE))
            resp_lists[nm] = fl
            obs += fl
    fdb = il.final(st["Do"], "database")
    obs += fdb + il.final(st["Do"], "_next_id") + il.final(st["So"], "data_consumer_its_aid") + il.final(st["So"], "data_provider_its_aid")
    exc = z3.Or(*[c for nm in combo for c, k in il.rets[nm][1]]) if any(il.rets[nm][1] for nm in combo) else FALSE
    vars_ = st["vars"]

    def starts_unit(b):
        return base(b.thread) == "gc" and b.fn in ("get_all_data_containers", "del_provider_data")

    def unit_start_real(name, what):
        return base(name) == "gc" and what.startswith("acquire data_containers_lock")

    def run_real(vals, order=None):
        from unittest import mock
        R = _RealFull(vals)
        sched = Scheduler(vals["schedule"]) if order is None else UnitScheduler(order, unit_start_real)
        und = il.und_names if order is None else set()
        gate_object(R.D, {"database": "_lock", "_next_id": "_lock"}, sched, und)
        gate_object(R.M, {"new_data_recieved_flag": "data_containers_lock"}, sched, und)
        gate_object(R.S, {"subscriptions": "_lock", "last_checked_subscriptions_time": "_lock", "data_consumer_its_aid": "_lock", "data_provider_its_aid": "_lock"}, sched, und)
        for o, n in ((R.if3, "if3._deregistration_lock"), (R.if4, "if4._deregistration_lock")):
            if hasattr(o, "_deregistration_lock"):
                o._deregistration_lock = GateLock(o._deregistration_lock, sched, n)
        with mock.patch.object(TimeService, "time", staticmethod(lambda: _now_float(vals))), \
                mock.patch.object(LC.RequestDataObjectsReq, "filter_out_by_data_object_type", staticmethod(lambda objs, types: objs)):
            res, sched = run_schedule(sched.order, {nm: (lambda nm=nm: FULL_OPS[base(nm)][2](R)) for nm in combo}, sched)
        return R, res, sched

    def view(R, res):
        return ({nm: res[nm][1] for nm in combo if FULL_OPS[base(nm)][3] != "drop"}, R.state())

    def replay(vals):
        R, res, sched = run_real(vals)
        if sched.failed:
            return False, "replay scheduler: " + sched.failed
        errs = [f"{n} raised {r[1]!r}" for n, r in res.items() if r[0] == "raised"]
        got = view(R, res)
        explained, seen = [], []
        for units in il.reference_orders(starts_unit):
            order = [u[0].thread for u in units]
            if order in seen:
                continue
            seen.append(order)
            R2, res2, s2 = run_real(vals, order)
            if s2.failed:
                raise RuntimeError("reference execution did not complete: " + s2.failed)
            if view(R2, res2) == got:
                explained.append(order)
                break
        bad = bool(errs) or not explained
        return bad, f"concurrent {combo} from {vals}: responses {got[0]}, final store {got[1][0]}, allocator {got[1][1]}, consumers {got[1][3]}, providers {got[1][4]} {errs}; " + \
            ("explained by no reference execution" if not explained else f"explained by {explained[0]}") + f" (switch points {sched.trace})"
    preg, reg = st["preg"][APPS[0]], st["reg"][APPS[0]]
    feasible(ctx, il, tag + "-some-schedule")
    if "if3_add" in names:
        rid = obs[[i for i, nm in enumerate(combo) if base(nm) == "if3_add"][0]] if False else None
        feasible(ctx, il, tag + "-add-can-store", z3.And(preg, fdb[8]))
    if "if4_request" in names:
        nm0 = [n for n in combo if base(n) == "if4_request"][0]
        feasible(ctx, il, tag + "-request-can-return-an-object", z3.And(reg, resp_lists[nm0][0] >= 1))
    solve(ctx, il, tag + "-no-exception", exc, vars=vars_, replay=replay)
    if "gc" not in names:
        solve(ctx, il, tag + "-linearizable", il.not_linearizable(obs, inputs=st["inputs"]), vars=vars_, replay=replay,
              desc="responses (identifier, result codes, returned objects), final store, allocator and registries equal those of some serial order of the operations")
        ctx.bound(f"{tag}: {il.n_reference_orders} reference executions")
    # a query returns only objects that were stored at some instant: every returned object is one of the written ones, none twice
    for nm, fl in resp_lists.items():
        for i in range(4):
            o = 1 + 3 * i
            legal = z3.Or(*[z3.And(*[fl[o + j] == st["leaves"][r][j] for j in range(3)]) for r in range(4)])
            solve(ctx, il, f"{tag}-{nm}-returned-object-{i}-is-a-stored-one", z3.And(fl[0] > i, z3.Not(legal)), vars=vars_, replay=replay)
    no_deadlock(ctx, il, tag)
    bounds_ok(ctx, il, tag)
    note_blocks(ctx, il, " || ".join(combo) + " through IF.LDM.3 / IF.LDM.4, LDMService, LDMMaintenanceThread and DictionaryDataBase")
    ctx.bound("store of two records (each present or not) + one added; provider / consumer registries over two ITS-AIDs; operations: " + " || ".join(combo))
    ctx.stub("as Y2 and Y3: one symbolic clock instant, to_dict returns the added record, type selection is the identity, area sweep is a no-op")


def _register_full_vcs():
    for combo, tiers in FULL:
        def fn(ctx, combo=combo):
            _full_vc(ctx, combo)
        fn.__doc__ = "IF.LDM.3 / IF.LDM.4 data path under concurrency: " + " || ".join(combo)
        vc("C16", "Y4-interface-data-path[" + "|".join(combo) + "]", tiers)(fn)


_register_full_vcs()


# ---------------------------------------------------------------------------------------------- Y5 reactive maintenance: the pass runs inside add_provider_data
import time as _time


def _reactive_env(E, st):
    """LDMMaintenanceReactive over the in-memory back-end: add_provider_data inserts and, when a second has passed, runs the pass itself"""
    M0, Mo0 = _maint_env(E, st, two_new=True)          # store, records, clock stubs (the threaded object itself is replaced below)
    D = st["D"]
    M = LDMMaintenanceReactive.__new__(LDMMaintenanceReactive)
    LDMMaintenance.__init__(M, None, D)
    M.lock = threading.Lock()
    M.last_trash_collection_time = 0.0
    Mo = E.lift(M)
    Mo.fields["data_containers"] = st["Do"]
    from ..facil import logger
    Mo.fields["logging"] = logger(E)
    Mo.fields["new_data_recieved_flag"] = st["vars"]["new_data_flag"]
    last = z3.Real("last_pass_monotonic")
    mono = z3.Real("monotonic_now")
    E.assumptions += [last >= 0, mono >= last, mono <= last + 10]
    Mo.fields["last_trash_collection_time"] = last
    E.stubs[_time.monotonic] = lambda it, a, k, pc: mono
    # replace the shared declarations of the threaded object by those of the reactive one
    for key in [k for k in E.shared if E.shared[k][0] is Mo0]:
        del E.shared[key]
        E.order.remove(key)
    E.share(Mo, "new_data_recieved_flag", IntS(), None)
    E.share(Mo, "last_trash_collection_time", IntS(), "lock")
    st.update(M=M, Mo=Mo, last=last, mono=mono)
    st["vars"] = dict(st["vars"], last_pass_monotonic=last, monotonic_now=mono)
    st["inputs"] = list(st["inputs"]) + [last, mono]
    return M, Mo


class _RealReactive(_RealMaint):
    def __init__(self, vals):
        super().__init__(vals)
        M = LDMMaintenanceReactive.__new__(LDMMaintenanceReactive)
        LDMMaintenance.__init__(M, None, self.D)
        M.lock = threading.Lock()
        M.last_trash_collection_time = _frac(vals["last_pass_monotonic"])
        M.check_and_delete_area_of_maintenance = lambda: []
        M.new_data_recieved_flag = vals["new_data_flag"]
        self.M = M


def _frac(v):
    if isinstance(v, str):
        from fractions import Fraction
        return float(Fraction(v.rstrip("?")))
    return float(v)


@vc("C16", "Y5-reactive-maintenance-concurrent-adds")
def reactive_adds(ctx):
    """two providers add through the reactive maintenance at the same time; each add may run the garbage-collection pass itself"""
    st = {}
    combo = ("add1", "add2")

    def build(E):
        st.clear()
        M, Mo = _reactive_env(E, st)
        # two different added records: Rn and Ru of the universe
        calls = {"n": 0}
        which = {"add1": st["recs"][2], "add2": st["recs"][3]}
        E.stubs[LC.AddDataProviderReq.to_dict] = lambda it, a, k, pc: which[it.cur_thread]
        # the pass itself (two passes interleaving with each other and with adds) is Y3 [gc|gc'], [gc|gc'|add]; here it is one recorded step
        st["passes"] = []
        E.stubs[LDMMaintenance.collect_trash] = lambda it, a, k, pc: st["passes"].append((pc, it.cur_thread))
        return dict(threads=[(nm, LDMMaintenanceReactive.add_provider_data, [Mo, Obj(LC.AddDataProviderReq, dict(data_object=nm))]) for nm in combo],
                    locks=[M.lock, st["D"]._lock], lock_names=["lock", "_lock"])
    il = Ilv(build, unroll=4).run()
    il.cons = il.encode()
    E = il.E
    ids = [E.tok(il.rets[nm][0]) for nm in combo]
    fdb = il.final(st["Do"], "database")
    exc = z3.Or(*[c for nm in combo for c, k in il.rets[nm][1]]) if any(il.rets[nm][1] for nm in combo) else FALSE
    vars_ = st["vars"]
    keys = st["keys"]          # [ka, kb, n0] - the second new identifier n0+1 is not a tracked key: ask for it through the allocator
    nxt = il.final(st["Do"], "_next_id")[0]

    def replay(vals):
        from unittest import mock
        R = _RealReactive(vals)
        sched = Scheduler(vals["schedule"])
        gate_object(R.D, {"database": "_lock", "_next_id": "_lock"}, sched, il.und_names)
        gate_object(R.M, {"new_data_recieved_flag": None, "last_trash_collection_time": "lock"}, sched, il.und_names)
        recs = {"add1": _real_rec(vals, "Rn"), "add2": _real_rec(vals, "Ru")}
        mk = lambda nm: type("Req", (), {"to_dict": lambda self: recs[nm], "data_object": nm})()
        import flexstack.facilities.local_dynamic_map.ldm_maintenance_reactive as RMOD
        ran = []
        R.M.collect_trash = lambda: ran.append(threading.current_thread().name)
        with mock.patch.object(TimeService, "time", staticmethod(lambda: _now_float(vals))), \
                mock.patch.object(RMOD.time, "monotonic", lambda: _frac(vals["monotonic_now"])):
            res, sched = run_schedule(vals["schedule"], {nm: (lambda nm=nm: R.M.add_provider_data(mk(nm))) for nm in combo}, sched)
        if sched.failed:
            return False, "replay scheduler: " + sched.failed
        bad = [f"{n} raised {r[1]!r}" for n, r in res.items() if r[0] == "raised"]
        got = [res[nm][1] for nm in combo]
        db = object.__getattribute__(R.D, "database")
        now_its = (int(_now_float(vals)) - ITS_EPOCH + ELAPSED_SECONDS) * 1000
        due = _frac(vals["monotonic_now"]) - _frac(vals["last_pass_monotonic"]) >= 1
        if (due and not ran) or (not due and ran):
            bad.append(f"garbage collection ran in {ran} although a second had {'passed' if due else 'not passed'} since the last pass")
        if got[0] == got[1]:
            bad.append(f"both providers got identifier {got[0]}")
        for nm, i in zip(combo, got):
            r = recs[nm]
            lapsed = r["timeValidity"] * 1000 + r["timestamp"] < now_its
            if not lapsed and db.get(i) != r:
                bad.append(f"the object of {nm} (still valid) is not stored under its identifier {i}")
        if vals["a_present"]:
            ra = _real_rec(vals, "Ra")
            if not (ra["timeValidity"] * 1000 + ra["timestamp"] < now_its) and db.get(vals["id_a"]) != ra:
                bad.append("an earlier, still valid object was removed or changed")
        return bool(bad), f"two concurrent reactive adds from {vals}: " + ("; ".join(bad) or "ok") + f" (ids {got}, store {db}, switch points {sched.trace})"
    feasible(ctx, il, "Y5-some-schedule")
    feasible(ctx, il, "Y5-both-adds-run-the-pass", z3.And(*[z3.Or(*[c for c, t in st["passes"] if t == nm]) if any(t == nm for c, t in st["passes"]) else FALSE for nm in combo]))
    npass = sum([z3.If(c, 1, 0) for c, t in st["passes"]]) if st["passes"] else z3.IntVal(0)
    due_ = st["mono"] - st["last"] >= 1
    solve(ctx, il, "Y5-a-pass-runs-when-a-second-has-elapsed-and-none-otherwise", z3.Or(z3.And(due_, npass < 1), z3.And(z3.Not(due_), npass != 0)), vars=vars_, replay=replay,
          desc="when at least one second has passed since the recorded last pass, at least one of the two adds runs the pass (the second may find the time already "
               "updated by the first); otherwise none does")
    solve(ctx, il, "Y5-no-exception", exc, vars=vars_, replay=replay)
    solve(ctx, il, "Y5-identifiers-distinct-and-new", z3.Or(ids[0] == ids[1], *[z3.Or(i < st["n0"], i > st["n0"] + 1) for i in ids]), vars=vars_, replay=replay)
    solve(ctx, il, "Y5-allocator-advanced-by-two", nxt != st["n0"] + 2, vars=vars_, replay=replay)
    # the object stored under n0 (tracked key) is the one whose add got n0, unless it had lapsed and a pass removed it
    for j, (nm, r) in enumerate((("add1", 2), ("add2", 3))):
        for o, idt in ((2 * 4, st["n0"]), (1 * 4, st["n0"] + 1)):
            stored = z3.And(fdb[o], *[fdb[o + 1 + x] == st["leaves"][r][x] for x in range(3)])
            solve(ctx, il, f"Y5-valid-object-of-{nm}-stored-under-its-identifier", z3.And(ids[j] == idt, z3.Not(st["expired"][r]), z3.Not(stored)), vars=vars_, replay=replay)
    solve(ctx, il, "Y5-earlier-valid-object-survives", z3.And(st["ha"], z3.Not(st["expired"][0]), z3.Not(z3.And(fdb[0], *[fdb[1 + x] == st["leaves"][0][x] for x in range(3)]))),
          vars=vars_, replay=replay)
    no_deadlock(ctx, il, "Y5")
    bounds_ok(ctx, il, "Y5")
    note_blocks(ctx, il, "add_provider_data || add_provider_data on LDMMaintenanceReactive (each may run collect_trash inline)")
    ctx.bound("store of two records (each present or not) + the two added ones; one clock instant; time.monotonic one symbolic value up to 10 s after the last pass "
              "(both adds then decide alike whether to run the pass)")
    ctx.stub("as Y3; time.monotonic is one symbolic instant; collect_trash is a recorded step here (passes interleaving with each other and with adds: Y3)")
