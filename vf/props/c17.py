"""C17 - DEN service repeats an event's DENM on schedule with a stable, unique identity."""
import ast
import types
import z3
from ..calls import make
from ..values import Obj, Opaque, SBytes, SDict, SList, Guarded, Undefined
from ..interp import TRUE, FALSE, Frame
from ..runner import vc
from ..facil import logger, Clock, path_get, cond_or, find_node, num_eq, val_eq, val_cmp

import flexstack.facilities.decentralized_environmental_notification_service.denm_transmission_management as DTM
from flexstack.facilities.decentralized_environmental_notification_service.denm_transmission_management import (
    DENMTransmissionManagement, DecentralizedEnvironmentalNotificationMessage)
from flexstack.facilities.decentralized_environmental_notification_service.denm_reception_management import DENMReceptionManagement
from flexstack.applications.road_hazard_signalling_service.service_access_point import DENRequest
from flexstack.applications.road_hazard_signalling_service.emergency_vehicle_approaching_service import EmergencyVehicleApproachingService
from flexstack.facilities.ca_basic_service.cam_transmission_management import VehicleData
from flexstack.utils.time_service import TimeService, ITS_EPOCH, ELAPSED_SECONDS
from flexstack.btp.service_access_point import CommonNH
from flexstack.geonet.service_access_point import HeaderType, GeoBroadcastHST
from flexstack.facilities.local_dynamic_map.ldm_constants import DENM as DENM_APP_ID


class DenHarness:
    """DENMTransmissionManagement with symbolic station id / service counter, recording coder and BTP router"""

    def __init__(self, unroll):
        self.I = I = make("int", unroll=unroll)
        self.clock = Clock(I)
        I.stubs[TimeService.time] = self.clock.read
        self.encoded = []      # (pc, denm dict, data)
        self.requests = []     # (pc, BTPDataRequest Obj, virtual ms since start)
        self.sleep_ms = z3.RealVal(0)
        coder = Opaque("coder")

        def enc(it, name, a, k, pc):
            data = SBytes([z3.BitVec(it.fresh("uper"), 8) for _ in range(3)])
            self.encoded.append((pc, a[0], data))
            return data
        I.stubs[id(coder)] = enc
        btp = Opaque("btp")

        def btp_stub(it, name, a, k, pc):
            self._drain_sleeps()
            self.requests.append((pc, a[0], self.sleep_ms))
            return None
        I.stubs[id(btp)] = btp_stub
        self.sid = I.int_var("station_id", 0, 4294967295)
        self.svc_sn = I.int_var("service_sequence_number", 0, 65535)
        vd = Obj(VehicleData, dict(station_id=self.sid, station_type=5))
        fields = dict(logging=logger(I), btp_router=btp, vehicle_data=vd, denm_coder=coder, sequence_number=self.svc_sn)
        # attributes added by later versions of the class (locks, counters) are taken from a real instance
        from unittest import mock
        real = DENMTransmissionManagement(mock.Mock(), mock.Mock(), mock.Mock())
        for k, v in vars(real).items():
            fields.setdefault(k, v)
        self.o = Obj(DENMTransmissionManagement, fields)
        self._nev = 0

    def _drain_sleeps(self):
        evs = self.I.events
        for c, kind, d in evs[self._nev:]:
            if kind == "sleep":
                self.sleep_ms = self.sleep_ms + z3.If(c, self.I.to_float(d) * 1000, z3.RealVal(0))
        self._nev = len(evs)

    def request(self, tag, kbound):
        I = self.I
        i = I.int_var(f"{tag}_interval", 100, 10000)
        T = I.int_var(f"{tag}_duration", 0, 60000)
        I.assumptions.append(T <= kbound * i)
        lat = I.int_var(f"{tag}_lat", -900000000, 900000000)
        lon = I.int_var(f"{tag}_lon", -1800000000, 1800000000)
        ep = {"latitude": lat, "longitude": lon,
              "positionConfidenceEllipse": {"semiMajorConfidence": 4095, "semiMinorConfidence": 4095, "semiMajorOrientation": 3601},
              "altitude": {"altitudeValue": 800001, "altitudeConfidence": "unavailable"}}
        req = Obj(DENRequest, dict(denm_interval=i, priority_level=None, detection_time=I.int_var(f"{tag}_detection", 0, 2 ** 42 - 1),
                                   time_period=T, quality=7, event_position=ep, heading=0, confidence=2,
                                   relevance_distance="lessThan200m", relevance_traffic_direction="upstreamTraffic",
                                   rhs_cause_code="emergencyVehicleApproaching95", rhs_subcause_code=1, rhs_event_speed=30,
                                   rhs_vehicle_type=0, lcrw_cause_code="collisionRisk97", lcrw_subcause_code=4))
        return req, dict(i=i, T=T, lat=lat, lon=lon)

    def vars(self, *infos):
        v = {"station_id": self.sid, "service_sequence_number": self.svc_sn}
        for inf in infos:
            for k, t in inf.items():
                v[t.decl().name()] = t
        v.update(self.clock.vars())
        return v


# ---------------------------------------------------------------------------------------------- replay on the real classes
def real_run(vals, events, clock_names):
    """events: list of ('rep'|'crw', tag). Runs the real DENMTransmissionManagement with the real DENM coder, a recording
    BTP router and a virtual clock; returns per event the list of (virtual ms, BTPDataRequest, decoded DENM)."""
    from unittest import mock
    from flexstack.facilities.decentralized_environmental_notification_service.denm_coder import DENMCoder
    coder = DENMCoder()
    out = []
    cur = []
    state = {"ms": 0.0}
    times = [vals[n] for n in clock_names] or [1.7e9]

    def tm():
        return times.pop(0) if len(times) > 1 else times[0]
    btp = mock.Mock()
    btp.btp_data_request.side_effect = lambda r: cur.append((state["ms"], r, coder.decode(r.data)))
    m = DENMTransmissionManagement(btp, coder, VehicleData(station_id=vals["station_id"], station_type=5))
    m.sequence_number = vals["service_sequence_number"]
    err = None
    with mock.patch.object(TimeService, "time", staticmethod(tm)), \
            mock.patch.object(DTM.time, "sleep", lambda d: state.__setitem__("ms", state["ms"] + d * 1000)):
        for kind, tag in events:
            cur = []
            state["ms"] = 0.0
            ep = {"latitude": vals[f"{tag}_lat"], "longitude": vals[f"{tag}_lon"],
                  "positionConfidenceEllipse": {"semiMajorConfidence": 4095, "semiMinorConfidence": 4095, "semiMajorOrientation": 3601},
                  "altitude": {"altitudeValue": 800001, "altitudeConfidence": "unavailable"}}
            req = DENRequest(denm_interval=vals[f"{tag}_interval"], time_period=vals[f"{tag}_duration"], detection_time=vals[f"{tag}_detection"],
                             event_position=ep, relevance_distance="lessThan200m", relevance_traffic_direction="upstreamTraffic",
                             rhs_cause_code="emergencyVehicleApproaching95", rhs_subcause_code=1, rhs_event_speed=30, rhs_vehicle_type=0,
                             lcrw_cause_code="collisionRisk97", lcrw_subcause_code=4)
            try:
                if kind == "rep":
                    m.trigger_denm_messages(req)
                else:
                    m.send_collision_risk_warning_denm(req)
            except Exception as e:      # noqa
                err = e
            out.append(cur)
    return out, err


def check_event(vals, tag, msgs, single=False):
    """the concrete oracle for one event's messages"""
    i, T = vals[f"{tag}_interval"], vals[f"{tag}_duration"]
    want = 1 if single else -(-T // i)
    bad = []
    if len(msgs) != want:
        bad.append(f"event {tag}: {len(msgs)} DENMs for interval {i} ms, duration {T} ms (expected {want})")
    ids = set()
    prev_ref = None
    for k, (ms, r, d) in enumerate(msgs):
        if not single and abs(ms - k * i) > 1e-6:
            bad.append(f"event {tag}: DENM {k} handed over at +{ms} ms instead of +{k * i} ms")
        if r.destination_port != 2002 or r.btp_type != CommonNH.BTP_B:
            bad.append(f"event {tag}: DENM {k} sent to port {r.destination_port} / {r.btp_type}")
        tt = r.gn_packet_transport_type
        if tt.header_type != HeaderType.GEOBROADCAST or tt.header_subtype != GeoBroadcastHST.GEOBROADCAST_CIRCLE:
            bad.append(f"event {tag}: DENM {k} not geo-broadcast to a circle")
        if r.gn_area.latitude != vals[f"{tag}_lat"] or r.gn_area.longitude != vals[f"{tag}_lon"] or r.gn_area.a <= 0:
            bad.append(f"event {tag}: DENM {k} area centre ({r.gn_area.latitude},{r.gn_area.longitude}) radius {r.gn_area.a}; event at ({vals[f'{tag}_lat']},{vals[f'{tag}_lon']})")
        mg = d["denm"]["management"]
        ids.add((mg["actionId"]["originatingStationId"], mg["actionId"]["sequenceNumber"]))
        if d["header"]["stationId"] != vals["station_id"] or mg["actionId"]["originatingStationId"] != vals["station_id"]:
            bad.append(f"event {tag}: DENM {k} station id {d['header']['stationId']} / {mg['actionId']['originatingStationId']}")
        if mg["eventPosition"]["latitude"] != vals[f"{tag}_lat"] or mg["eventPosition"]["longitude"] != vals[f"{tag}_lon"]:
            bad.append(f"event {tag}: DENM {k} event position differs from the request")
        if prev_ref is not None and mg["referenceTime"] < prev_ref:
            bad.append(f"event {tag}: reference time decreases ({prev_ref} -> {mg['referenceTime']})")
        prev_ref = mg["referenceTime"]
    if len(ids) > 1:
        bad.append(f"event {tag}: action identifiers differ within the event: {sorted(ids)}")
    return bad, ids


# ---------------------------------------------------------------------------------------------- N1 bounded repetition
@vc("C17", "N1-repetition-bounded")
def repetition_bounded(ctx):
    """trigger_denm_messages unrolled: every interval 100..10000 ms and duration with at most K repetitions"""
    K = 4 if ctx.tier == "quick" else 10
    h = DenHarness(unroll=K + 1)
    I = h.I
    req, inf = h.request("ev", K)
    I.call_function(DENMTransmissionManagement.trigger_denm_messages, [h.o, req])
    h._drain_sleeps()
    i, T, lat, lon = inf["i"], inf["T"], inf["lat"], inf["lon"]
    vars_ = h.vars(inf)
    vars_["ev_detection"] = req.fields["detection_time"]
    names = [t.decl().name() for _, t in h.clock.reads]
    exc = cond_or(c for c, _ in I.raises)

    def replay(vals):
        out, err = real_run(vals, [("rep", "ev")], names)
        bad, _ = check_event(vals, "ev", out[0])
        if err is not None:
            bad.append(f"raised {type(err).__name__}: {err}")
        return bool(bad), "; ".join(bad) or "as required"
    def replay_reftime(vals):
        out, err = real_run(vals, [("rep", "ev")], names)
        reads = [vals[n] for n in names] or [1.7e9]
        bad = []
        for k, (ms, r, d) in enumerate(out[0]):
            now = reads[min(k, len(reads) - 1)]
            its = (float(now) - ITS_EPOCH + ELAPSED_SECONDS) * 1000
            ref = d["denm"]["management"]["referenceTime"]
            if not (its - 1 < ref <= its):
                bad.append(f"DENM {k}: referenceTime {ref}, ITS time of the clock reading {its:.3f} ms")
        return bool(bad), "; ".join(bad) or "reference times are the ITS times of the clock readings"
    ctx.prove("no-exception", I, exc, vars=vars_, replay=replay)
    # count: the k-th DENM is handed over iff k*i < T  (=> ceil(T/i) messages), each exactly k*i ms after the first
    bad_cnt = [c != (k * i < T) for k, (c, r, ms) in enumerate(h.requests)]
    allbad = []
    ctx.prove("count-is-ceil-T-over-i", I, z3.Or(*bad_cnt) if bad_cnt else TRUE, vars=vars_, replay=replay,
              desc="DENM number k (k = 0,1,..) is handed to BTP iff k*interval < duration, i.e. ceil(T/i) messages, the first at once")
    bad_t = [z3.And(c, ms != z3.ToReal(k * i)) for k, (c, r, ms) in enumerate(h.requests)]
    ctx.prove("cadence-every-interval", I, z3.Or(*bad_t) if bad_t else TRUE, vars=vars_, replay=replay,
              desc="DENM k is handed over exactly k*interval ms (virtual time advanced by time.sleep) after the first")
    # each request: port 2002, BTP-B, GBC circle centred on the event position, payload = encoding of this repetition's DENM
    bad_req, bad_msg = [], []
    for k, (c, r, ms) in enumerate(h.requests):
        f = r.fields
        tt = f["gn_packet_transport_type"].fields
        ar = f["gn_area"].fields
        data_ok = any(f["data"] is d for _, _, d in h.encoded)
        bad_req.append(z3.And(c, z3.Or(z3.Not(num_eq(I, f["destination_port"], 2002)), z3.BoolVal(f["btp_type"] is not CommonNH.BTP_B),
                                       z3.BoolVal(tt["header_type"] is not HeaderType.GEOBROADCAST),
                                       z3.BoolVal(tt["header_subtype"] is not GeoBroadcastHST.GEOBROADCAST_CIRCLE),
                                       z3.Not(num_eq(I, ar["latitude"], lat)), z3.Not(num_eq(I, ar["longitude"], lon)),
                                       I._lb(I.cmp_num(ast.LtE, ar["a"], 0)), z3.BoolVal(not data_ok),
                                       z3.Not(num_eq(I, f["length"], len(f["data"].bs) if isinstance(f["data"], SBytes) else -1)))))
    ctx.prove("request-port-transport-area", I, z3.Or(*bad_req) if bad_req else TRUE, vars=vars_, replay=replay,
              desc="each BTP request: port 2002, BTP-B, geo-broadcast circle with positive radius centred on the event position, data = coder output")
    n0 = len(I.raises)
    sns, refs = [], []
    for k, (c, d, data) in enumerate(h.encoded):
        mg = path_get(I, d, "denm", "management", pc=c)
        sn = path_get(I, mg, "actionId", "sequenceNumber", pc=c)
        osid = path_get(I, mg, "actionId", "originatingStationId", pc=c)
        hsid = path_get(I, d, "header", "stationId", pc=c)
        ref = path_get(I, mg, "referenceTime", pc=c)
        elat = path_get(I, mg, "eventPosition", "latitude", pc=c)
        elon = path_get(I, mg, "eventPosition", "longitude", pc=c)
        tint = path_get(I, mg, "TransmissionInterval", pc=c)
        sns.append((c, sn)); refs.append((c, ref))
        bad_msg.append(z3.And(c, z3.Or(z3.Not(num_eq(I, osid, h.sid)), z3.Not(num_eq(I, hsid, h.sid)), z3.Not(num_eq(I, elat, lat)),
                                       z3.Not(num_eq(I, elon, lon)), z3.Not(num_eq(I, tint, i)))))
    del I.raises[n0:]
    ctx.prove("station-identity-and-position-in-every-denm", I, z3.Or(*bad_msg) if bad_msg else TRUE, vars=vars_, replay=replay)
    same = [z3.And(c, sns[0][0], z3.Not(val_eq(I, sn, sns[0][1]))) for c, sn in sns[1:]]
    ctx.prove("same-action-id-within-event", I, z3.Or(*same) if same else FALSE, vars=vars_, replay=replay,
              desc="all repetitions of one event carry the same actionId (originating station, sequence number)")
    mono = [z3.And(refs[k + 1][0], val_cmp(I, ast.Lt, refs[k + 1][1], refs[k][1])) for k in range(len(refs) - 1)]
    ctx.prove("reference-time-non-decreasing", I, z3.Or(*mono) if mono else FALSE, vars=vars_, replay=replay)
    # reference time = ITS time of the clock reading
    rt_bad = []
    for (c, ref), (_, now) in zip(refs, h.clock.reads):
        its = (now - ITS_EPOCH + ELAPSED_SECONDS) * 1000
        rt_bad.append(z3.And(c, z3.Not(z3.And(val_cmp(I, ast.LtE, ref, its), val_cmp(I, ast.Gt, ref, its - 1)))))
    ctx.prove("reference-time-is-its-time", I, z3.Or(*rt_bad) if rt_bad else TRUE, vars=vars_,
              replay=replay_reftime)
    allbad = bad_cnt + bad_t + bad_req + bad_msg + same + mono
    ctx.witness("reach-3-repetitions", I, z3.And(h.requests[2][0], z3.Not(exc)) if len(h.requests) > 2 else FALSE, vars=vars_,
                validate=lambda v: not replay(v)[0], good=z3.Not(z3.Or(*allbad)))
    ctx.bound(f"interval 100..10000 ms, duration 0..60000 ms with duration <= {K}*interval (unwinding assertion proves the {K + 1}-fold unrolling suffices); "
              "event position over the full signed range; station id 32 bits; real-valued non-decreasing clock")
    ctx.stub("time.sleep advances a virtual clock by its argument; TimeService.time arbitrary non-decreasing; DENM coder returns fresh symbolic octets; BTP router records requests")


# ---------------------------------------------------------------------------------------------- N1 inductive step
@vc("C17", "N1-repetition-inductive")
def repetition_inductive(ctx):
    """one iteration of the repetition loop from an arbitrary accumulated time: covers any number of repetitions"""
    h = DenHarness(unroll=2)
    I = h.I
    req, inf = h.request("ev", 600)
    i, T = inf["i"], inf["T"]
    try:
        loop = find_node(DENMTransmissionManagement.trigger_denm_messages, ast.While)
    except IndexError:
        ctx.inconclusive("loop-shape", "trigger_denm_messages no longer contains a while loop: the inductive step cannot be set up (the bounded VC N1-repetition-bounded still applies)")
        return
    tt = I.int_var("transmission_time", 0, 10 ** 7)
    n = I.int_var("sent_so_far", 0, 10 ** 5)
    I.assumptions.append(tt == n * i)                     # loop invariant
    fr = Frame({"self": h.o, "denm_request": req}, DENMTransmissionManagement.trigger_denm_messages.__globals__,
               "DENMTransmissionManagement.trigger_denm_messages")
    from ..interp import function_ast
    fbody = function_ast(DENMTransmissionManagement.trigger_denm_messages).body
    I.exec_block(fbody[:fbody.index(loop)], fr, TRUE)          # prologue (locals set up before the loop)
    fr.env["transmission_time"] = tt                            # ... then an arbitrary iteration
    # other events may have been originated since this event's sequence number was allocated: havoc the service counter
    other = I.int_var("service_counter_after_other_events", 0, 65535)
    h.o.fields["sequence_number"] = other
    I.calls.add("flexstack.facilities.decentralized_environmental_notification_service.denm_transmission_management.DENMTransmissionManagement.trigger_denm_messages")
    guard = I.to_bool(I.ev(loop.test, fr, TRUE))
    out = I.exec_block(loop.body, fr, guard)
    h._drain_sleeps()
    tt2 = fr.env["transmission_time"]
    vars_ = h.vars(inf)
    vars_.update(transmission_time=tt, sent_so_far=n)
    sends = [c for c, r, ms in h.requests]
    once = z3.And(z3.PbEq([(c, 1) for c in sends], 1)) if sends else FALSE
    exc = cond_or(c for c, _ in I.raises)
    def nope(vals):
        """the one-iteration statement replayed as a whole real event with the same interval and a duration of (sent_so_far + 2) intervals, capped:
        one DENM per iteration, one sleep of exactly one interval after each, the loop ends when the accumulated time reaches the duration"""
        from unittest import mock
        from flexstack.facilities.decentralized_environmental_notification_service.denm_coder import DENMCoder
        coder = DENMCoder()
        i = vals["ev_interval"]
        T = vals["ev_duration"]
        log = []
        btp = mock.Mock()
        btp.btp_data_request.side_effect = lambda r: log.append("denm")
        m = DENMTransmissionManagement(btp, coder, VehicleData(station_id=vals["station_id"], station_type=5))
        req = DENRequest(denm_interval=i, time_period=T, detection_time=1, event_position={
            "latitude": vals["ev_lat"], "longitude": vals["ev_lon"],
            "positionConfidenceEllipse": {"semiMajorConfidence": 4095, "semiMinorConfidence": 4095, "semiMajorOrientation": 3601},
            "altitude": {"altitudeValue": 800001, "altitudeConfidence": "unavailable"}}, relevance_distance="lessThan200m",
            relevance_traffic_direction="upstreamTraffic", rhs_cause_code="emergencyVehicleApproaching95", rhs_subcause_code=1, rhs_event_speed=30, rhs_vehicle_type=0)
        with mock.patch.object(DTM.time, "sleep", lambda d: log.append(("sleep", round(d * 1000, 6)))):
            m.trigger_denm_messages(req)
        want = []
        t = 0
        while t < T:
            want += ["denm", ("sleep", float(i))]
            t += i
        norm = [x if x == "denm" else ("sleep", float(x[1])) for x in log]
        return norm != want, f"interval {i} ms, duration {T} ms: the event did {norm[:8]}{'...' if len(norm) > 8 else ''} (expected {want[:8]}{'...' if len(want) > 8 else ''})"
    ctx.witness("reach-iteration", I, z3.And(guard, out, n > 3), vars=vars_)
    ctx.prove("guard-is-time-below-duration", I, guard != (tt < T), vars=vars_, replay=nope,
              desc="the loop continues exactly while the accumulated time is below the requested duration")
    ctx.prove("step-sends-exactly-one", I, z3.And(guard, z3.Or(z3.Not(once), exc)), vars=vars_, replay=nope)
    ctx.prove("step-sleeps-one-interval", I, z3.And(guard, h.sleep_ms != z3.ToReal(i)), vars=vars_, replay=nope,
              desc="after handing over a DENM the loop sleeps exactly one interval")
    n0 = len(I.raises)
    sn_bad = [z3.And(c, z3.Not(val_eq(I, path_get(I, d, "denm", "management", "actionId", "sequenceNumber", pc=c), h.svc_sn))) for c, d, data in h.encoded]
    del I.raises[n0:]
    vars_["service_counter_after_other_events"] = other
    def replay_sn(vals):
        # real run of one event with two repetitions; while the event sleeps, another event moves the service counter
        from unittest import mock
        from flexstack.facilities.decentralized_environmental_notification_service.denm_coder import DENMCoder
        coder = DENMCoder()
        got = []
        btp = mock.Mock()
        btp.btp_data_request.side_effect = lambda r: got.append(coder.decode(r.data)["denm"]["management"]["actionId"]["sequenceNumber"])
        m = DENMTransmissionManagement(btp, coder, VehicleData(station_id=vals["station_id"], station_type=5))
        m.sequence_number = vals["service_sequence_number"]
        i = vals["ev_interval"]
        req = DENRequest(denm_interval=i, time_period=2 * i, detection_time=1, event_position={
            "latitude": vals["ev_lat"], "longitude": vals["ev_lon"],
            "positionConfidenceEllipse": {"semiMajorConfidence": 4095, "semiMinorConfidence": 4095, "semiMajorOrientation": 3601},
            "altitude": {"altitudeValue": 800001, "altitudeConfidence": "unavailable"}}, relevance_distance="lessThan200m",
            relevance_traffic_direction="upstreamTraffic", rhs_cause_code="emergencyVehicleApproaching95", rhs_subcause_code=1, rhs_event_speed=30, rhs_vehicle_type=0)
        with mock.patch.object(DTM.time, "sleep", lambda d: setattr(m, "sequence_number", vals["service_counter_after_other_events"])):
            m.trigger_denm_messages(req)
        return len(set(got)) != 1, f"service counter {vals['service_sequence_number']} at the start of the event, moved to {vals['service_counter_after_other_events']} by other events during the first sleep: the event's DENMs carry sequence numbers {got}"
    ctx.prove("step-uses-the-events-own-sequence-number", I, z3.And(guard, z3.Or(*sn_bad)) if sn_bad else TRUE, vars=vars_, replay=replay_sn,
              desc="a repetition carries the sequence number allocated when the event started, whatever other events did to the service counter meanwhile")
    ctx.prove("step-preserves-invariant", I, z3.And(guard, z3.Or(z3.Not(out), I.num(tt2) != (n + 1) * i)), vars=vars_, replay=nope,
              desc="invariant accumulated time = sent*interval is preserved, so the k-th DENM leaves at k*interval")
    # exit: the number of messages at loop exit is the unique n with (n-1)*i < T <= n*i  (= ceil(T/i))
    s = z3.Solver()
    s.set("timeout", ctx.timeout_ms)
    nn, ii, TT = z3.Ints("n i T")
    s.add(ii >= 100, ii <= 10000, TT >= 0, TT <= 60000, nn >= 0)
    s.add(z3.Not(nn * ii < TT), z3.Or(nn == 0, (nn - 1) * ii < TT))          # exit now, last iteration's guard held
    q = z3.Int("q")
    s.add(q >= 0, q * ii >= TT, z3.Or(q == 0, (q - 1) * ii < TT), q != nn)    # another value satisfying the definition of ceil
    import time
    t0 = time.time()
    r = str(s.check())
    ctx.solver_s += time.time() - t0
    ctx._rec(kind="prove", query="exit-count-is-ceil", status="discharged" if r == "unsat" else "inconclusive", seconds=time.time() - t0,
             reason=None if r == "unsat" else "solver " + r,
             desc="at loop exit sent = the unique n with (n-1)*i < T <= n*i, i.e. ceil(T/i), for all i in 100..10000, T in 0..60000")
    ctx.bound("one loop iteration from an arbitrary state satisfying the invariant accumulated = sent*interval; all intervals 100..10000 ms, durations 0..60000 ms")


# ---------------------------------------------------------------------------------------------- N2 identity across events
@vc("C17", "N2-action-id-across-events")
def action_ids(ctx):
    """three events originated by one station (two repeated road-hazard events and one collision-risk warning)"""
    K = 2
    h = DenHarness(unroll=K + 1)
    I = h.I
    reqA, infA = h.request("evA", K)
    reqB, infB = h.request("evB", K)
    reqC, infC = h.request("evC", K)
    marks = []
    for kind, req in (("rep", reqA), ("rep", reqB), ("crw", reqC)):
        n0 = len(h.encoded)
        if kind == "rep":
            I.call_function(DENMTransmissionManagement.trigger_denm_messages, [h.o, req])
        else:
            I.call_function(DENMTransmissionManagement.send_collision_risk_warning_denm, [h.o, req])
        marks.append((n0, len(h.encoded)))
    vars_ = h.vars(infA, infB, infC)
    for tag, req in (("evA", reqA), ("evB", reqB), ("evC", reqC)):
        vars_[f"{tag}_detection"] = req.fields["detection_time"]
    names = [t.decl().name() for _, t in h.clock.reads]
    n0 = len(I.raises)
    ev_sn = []
    for a, b in marks:
        lst = []
        for c, d, data in h.encoded[a:b]:
            lst.append((c, path_get(I, d, "denm", "management", "actionId", "sequenceNumber", pc=c)))
        ev_sn.append(lst)
    del I.raises[n0:]
    exc = cond_or(c for c, _ in I.raises)

    def replay(vals):
        out, err = real_run(vals, [("rep", "evA"), ("rep", "evB"), ("crw", "evC")], names)
        bad = []
        idsets = []
        for tag, msgs, single in (("evA", out[0], False), ("evB", out[1], False), ("evC", out[2], True)):
            b, ids = check_event(vals, tag, msgs, single)
            bad += b
            idsets.append(ids)
        for x in range(3):
            for y in range(x):
                if idsets[x] & idsets[y]:
                    bad.append(f"events {'ABC'[y]} and {'ABC'[x]} of one station share the action identifier {sorted(idsets[x] & idsets[y])}")
        if err is not None:
            bad.append(f"raised {type(err).__name__}: {err}")
        return bool(bad), "; ".join(bad) or "as required"
    ctx.witness("reach-all-three-events", I, z3.And(ev_sn[0][0][0], ev_sn[1][0][0], ev_sn[2][0][0], z3.Not(exc)), vars=vars_)
    ctx.prove("no-exception", I, exc, vars=vars_, replay=replay)
    same = []
    for lst in ev_sn:
        same += [z3.And(c, lst[0][0], z3.Not(val_eq(I, sn, lst[0][1]))) for c, sn in lst[1:]]
    ctx.prove("same-action-id-within-each-event", I, z3.Or(*same) if same else FALSE, vars=vars_, replay=replay)
    diff = []
    for x in range(3):
        for y in range(x):
            (cx, sx), (cy, sy) = ev_sn[x][0], ev_sn[y][0]
            diff.append(z3.And(cx, cy, val_eq(I, sx, sy)))
    ctx.prove("different-action-id-across-events", I, z3.Or(*diff), vars=vars_, replay=replay,
              desc="events originated one after the other by one station carry different sequence numbers (hence different actionIds)")
    rng = [z3.And(c, z3.Not(z3.And(val_cmp(I, ast.GtE, sn, 0), val_cmp(I, ast.LtE, sn, 65535)))) for lst in ev_sn for c, sn in lst]
    ctx.prove("sequence-number-in-16-bits", I, z3.Or(*rng), vars=vars_, replay=replay,
              desc="the sequence number stays inside the ASN.1 range 0..65535 for every value of the service counter (wrap-around)")
    ctx.bound("three consecutive events from an arbitrary service counter value 0..65535 (wrap included); each repeated event unrolled to 2 repetitions")
    ctx.stub("as N1")


# ---------------------------------------------------------------------------------------------- N5 reception -> LDM
@vc("C17", "N5-received-denm-stored-at-event-position")
def reception(ctx):
    I = make("int")
    clock = Clock(I)
    I.stubs[TimeService.time] = clock.read
    lat = I.int_var("lat", -900000000, 900000001)
    lon = I.int_var("lon", -1800000000, 1800000001)
    alt = I.int_var("alt", -100000, 800001)
    sid = I.int_var("station_id", 0, 4294967295)
    ref = I.int_var("reference_time", 0, 2 ** 42 - 1)
    has_sit, has_loc = z3.Bool("has_situation"), z3.Bool("has_location")
    denm = SDict([(TRUE, "header", SDict([(TRUE, "protocolVersion", 2, False), (TRUE, "messageId", 1, False), (TRUE, "stationId", sid, False)]), False),
                  (TRUE, "denm", SDict([
                      (TRUE, "management", SDict([
                          (TRUE, "actionId", SDict([(TRUE, "originatingStationId", sid, False), (TRUE, "sequenceNumber", I.int_var("sn", 0, 65535), False)]), False),
                          (TRUE, "detectionTime", I.int_var("detection_time", 0, 2 ** 42 - 1), False),
                          (TRUE, "referenceTime", ref, False),
                          (z3.Bool("has_termination"), "termination", "isCancellation", False),
                          (TRUE, "eventPosition", SDict([(TRUE, "latitude", lat, False), (TRUE, "longitude", lon, False),
                                                         (TRUE, "positionConfidenceEllipse", Opaque("ellipse"), False),
                                                         (TRUE, "altitude", SDict([(TRUE, "altitudeValue", alt, False), (TRUE, "altitudeConfidence", "unavailable", False)]), False)]), False),
                          (z3.Bool("has_relevance_distance"), "relevanceDistance", "lessThan50m", False),
                          (z3.Bool("has_validity"), "validityDuration", I.int_var("validity", 0, 86400), False),
                          (TRUE, "stationType", I.int_var("station_type", 0, 255), False)]), False),
                      (has_sit, "situation", Opaque("situation"), False),
                      (has_loc, "location", Opaque("location"), False)]), False)])
    coder = Opaque("coder")
    I.stubs[id(coder)] = lambda it, name, a, k, pc: denm
    added = []
    ifl = Opaque("if_ldm_3")
    I.stubs[id(ifl)] = lambda it, name, a, k, pc: added.append((pc, name, a[0]))
    ldm = Obj(types.SimpleNamespace, dict(if_ldm_3=ifl))
    o = Obj(DENMReceptionManagement, dict(logging=logger(I), denm_coder=coder, btp_router=None, ldm_facility=ldm))
    ind = Obj(types.SimpleNamespace, dict(data=SBytes([z3.BitVec(f"p{i}", 8) for i in range(4)])))
    I.call_function(DENMReceptionManagement.reception_callback, [o, ind])
    exc = cond_or(c for c, _ in I.raises)
    vars_ = dict(lat=lat, lon=lon, alt=alt, station_id=sid, reference_time=ref, has_situation=has_sit, has_location=has_loc,
                 has_termination=z3.Bool("has_termination"), has_relevance_distance=z3.Bool("has_relevance_distance"), has_validity=z3.Bool("has_validity"))
    vars_.update(clock.vars())

    def replay(vals):
        from unittest import mock
        coder_ = mock.Mock()
        d = {"header": {"protocolVersion": 2, "messageId": 1, "stationId": vals["station_id"]},
             "denm": {"management": {"actionId": {"originatingStationId": vals["station_id"], "sequenceNumber": 1}, "detectionTime": 1,
                                     "referenceTime": vals["reference_time"], "eventPosition": {
                                         "latitude": vals["lat"], "longitude": vals["lon"], "positionConfidenceEllipse": {},
                                         "altitude": {"altitudeValue": vals["alt"], "altitudeConfidence": "unavailable"}}, "stationType": 5}}}
        # the optional members the model chose
        mg = d["denm"]["management"]
        if vals.get("has_termination"):
            mg["termination"] = "isCancellation"
        if vals.get("has_relevance_distance"):
            mg["relevanceDistance"] = "lessThan50m"
        if vals.get("has_validity"):
            mg["validityDuration"] = 600
        if vals.get("has_situation"):
            d["denm"]["situation"] = {"informationQuality": 1, "eventType": {"ccAndScc": ("reserved0", 0)}}
        if vals.get("has_location"):
            d["denm"]["location"] = {"traces": []}
        coder_.decode.return_value = d
        ldm_ = mock.Mock()
        m = DENMReceptionManagement(coder_, mock.Mock(), ldm_)
        got = []
        ldm_.if_ldm_3.add_provider_data.side_effect = lambda r: got.append(r)
        ind_ = mock.Mock()
        ind_.data = b"\x00"
        try:
            m.reception_callback(ind_)
        except Exception as e:
            return True, f"raised {type(e).__name__}: {e}"
        if len(got) != 1:
            return True, f"{len(got)} LDM additions for one received DENM"
        rp = got[0].location.reference_position
        ok = (rp.latitude, rp.longitude, rp.altitude.altitude_value) == (vals["lat"], vals["lon"], vals["alt"]) and got[0].data_object is d \
            and got[0].application_id == DENM_APP_ID
        return not ok, f"stored at ({rp.latitude},{rp.longitude},{rp.altitude.altitude_value}); event at ({vals['lat']},{vals['lon']},{vals['alt']}); application id {got[0].application_id}"
    adds = [(c, r) for c, name, r in added if name == "add_provider_data"]
    ctx.witness("reach-added", I, z3.And(adds[0][0], z3.Not(exc)) if adds else FALSE, vars=vars_, validate=lambda v: not replay(v)[0])
    ctx.prove("no-exception", I, exc, vars=vars_, replay=replay)
    ctx.prove("exactly-one-ldm-addition", I, z3.Not(z3.PbEq([(c, 1) for c, _ in adds], 1)) if adds else TRUE, vars=vars_, replay=replay)
    bad = []
    for c, r in adds:
        rp = r.fields["location"].fields["reference_position"].fields
        bad.append(z3.And(c, z3.Or(z3.Not(num_eq(I, rp["latitude"], lat)), z3.Not(num_eq(I, rp["longitude"], lon)),
                                   z3.Not(num_eq(I, rp["altitude"].fields["altitude_value"], alt)),
                                   z3.BoolVal(r.fields["data_object"] is not denm), z3.Not(num_eq(I, r.fields["application_id"], DENM_APP_ID)))))
    ctx.prove("stored-at-event-position-with-content", I, z3.Or(*bad) if bad else TRUE, vars=vars_, replay=replay,
              desc="the LDM record of a received DENM: location = event position (lat, lon, altitude), data object = the decoded DENM, application id DENM")
    ctx.bound("decoded DENM with symbolic management container (position incl. the unavailable codes, times, ids) and every subset of optional containers")
    ctx.stub("DENM coder decode returns the symbolic structure; IF.LDM.3 records the request")


# ---------------------------------------------------------------------------------------------- N6 overlapping events keep their own position
@vc("C17", "N6-overlapping-events-keep-their-position")
def overlapping(ctx):
    """EmergencyVehicleApproachingService.trigger_denm_sending twice: the first event's request still names the first position"""
    I = make("int")
    clock = Clock(I)
    I.stubs[TimeService.time] = clock.read
    started = []
    dtm = Opaque("denm_transmission_management")
    I.stubs[id(dtm)] = lambda it, name, a, k, pc: started.append((pc, name, a[0]))
    den = Obj(types.SimpleNamespace, dict(denm_transmission_management=dtm))
    from unittest import mock
    real = EmergencyVehicleApproachingService(mock.Mock())
    f = dict(vars(real))
    f["den_service"] = den
    f["denm_duration"] = I.int_var("duration", 0, 60000)
    f["denm_interval"] = I.int_var("interval", 100, 10000)
    o = Obj(EmergencyVehicleApproachingService, f)
    pos = []
    for n in (1, 2):
        lat, lon = I.float_var(f"lat{n}", -90, 90), I.float_var(f"lon{n}", -180, 180)
        pos.append((lat, lon))
        I.call_function(EmergencyVehicleApproachingService.trigger_denm_sending, [o, SDict([(TRUE, "lat", lat, False), (TRUE, "lon", lon, False)])])
    exc = cond_or(c for c, _ in I.raises)
    vars_ = {"lat1": pos[0][0], "lon1": pos[0][1], "lat2": pos[1][0], "lon2": pos[1][1], "duration": f["denm_duration"], "interval": f["denm_interval"]}

    def trunc(x):
        y = x * 10000000
        return z3.If(y >= 0, z3.ToInt(y), -z3.ToInt(-y))

    def replay(vals):
        den_ = mock.Mock()
        got = []
        den_.denm_transmission_management.request_denm_sending.side_effect = lambda r: got.append(r)
        s = EmergencyVehicleApproachingService(den_, vals["duration"])
        s.denm_interval = vals["interval"]
        s.trigger_denm_sending({"lat": vals["lat1"], "lon": vals["lon1"]})
        first = (got[0].event_position["latitude"], got[0].event_position["longitude"])
        s.trigger_denm_sending({"lat": vals["lat2"], "lon": vals["lon2"]})
        now = (got[0].event_position["latitude"], got[0].event_position["longitude"])
        want = (int(vals["lat1"] * 10000000), int(vals["lon1"] * 10000000))
        bad = now != want or first != want or got[0].time_period != vals["duration"] or got[0].denm_interval != vals["interval"]
        return bad, f"first event requested at {first}; after the second event was triggered the first request names {now} (expected {want})"
    reqs = [(c, r) for c, name, r in started if name == "request_denm_sending"]
    ctx.witness("reach-two-events", I, z3.And(reqs[1][0], z3.Not(exc), pos[0][0] != pos[1][0]) if len(reqs) > 1 else FALSE, vars=vars_)
    ctx.prove("no-exception", I, exc, vars=vars_, replay=replay)
    n0 = len(I.raises)
    bad = []
    for (c, r), (lat, lon) in zip(reqs, pos):
        ep = r.fields["event_position"]
        bad.append(z3.And(c, z3.Or(z3.Not(num_eq(I, path_get(I, ep, "latitude"), trunc(lat))), z3.Not(num_eq(I, path_get(I, ep, "longitude"), trunc(lon))),
                                   z3.Not(num_eq(I, r.fields["time_period"], f["denm_duration"])), z3.Not(num_eq(I, r.fields["denm_interval"], f["denm_interval"])))))
    del I.raises[n0:]
    ctx.prove("each-request-keeps-its-own-event-position", I, z3.Or(*bad) if bad else TRUE, vars=vars_, replay=replay,
              desc="after a second event was triggered, the request of the first (still repeating) event names the first event's position; interval and duration pass through")
    ctx.prove("one-request-per-trigger", I, z3.Not(z3.And(*[c for c, _ in reqs])) if len(reqs) == 2 else TRUE, vars=vars_, replay=replay)
    ctx.bound("two consecutive triggers with arbitrary positions over the signed range (real-valued scaling, truncation toward zero); interval/duration symbolic")
    ctx.stub("DEN service request_denm_sending records the request (the repetition thread itself is N1)")
