import time, z3, sys
sys.path.insert(0, '/verif')
from vf.calls import make
from vf.values import Obj, EnumSym, SBytes
from flexstack.geonet.basic_header import BasicHeader, LT, LTbase, BasicNH
from flexstack.geonet.position_vector import LongPositionVector, TST
from flexstack.geonet.gn_address import GNAddress

T = z3.BoolVal(True)
def check(name, I, s, expect):
    s.add(*I.assumptions)
    t0 = time.time(); r = s.check(); dt = time.time() - t0
    ok = "OK " if str(r) == expect else "BAD"
    print(f"{ok} {name}: {r} (expect {expect}) {dt:.2f}s", ("model: " + str(s.model())[:150]) if r == z3.sat else "")

I = make("bv", 64)
v = I.int_var("v", 0, (1 << 32) - 1)
d = I.call_function(BasicHeader.decode_from_int, [v])
spec = z3.And(d.fields["version"] == z3.LShR(v, 28) & 15, d.fields["nh"].val == (z3.LShR(v, 24) & 15),
              d.fields["reserved"] == (z3.LShR(v, 16) & 255), d.fields["lt"].fields["multiplier"] == (z3.LShR(v, 10) & 63),
              d.fields["lt"].fields["base"].val == (z3.LShR(v, 8) & 3), d.fields["rhl"] == (v & 255))
s = z3.Solver(); s.add(z3.Not(spec)); check("bh.decode layout", I, s, "unsat")
exc = z3.Or(*[c for c, n in I.raises])
s = z3.Solver(); s.add(exc, (z3.LShR(v, 24) & 15) < 3); check("bh.decode raises nh<3", I, s, "unsat")
s = z3.Solver(); s.add(exc); check("bh.decode raises any", I, s, "sat")
e = I.call_function(BasicHeader.encode_to_int, [d])
s = z3.Solver(); s.add((z3.LShR(v, 24) & 15) < 3, e != v); check("bh enc(dec(v))==v", I, s, "unsat")

I = make("bv", 256)
lat = I.int_var("lat", -900000000, 900000000); lon = I.int_var("lon", -1800000000, 1800000000)
sp = I.int_var("s", 0, 32767); h = I.int_var("h", 0, 65535); tst = I.int_var("tst", 0, 2**32-1)
pai = z3.Bool("pai")
lpv = Obj(LongPositionVector, dict(gn_addr=GNAddress(), tst=Obj(TST, dict(msec=tst)), latitude=lat, longitude=lon, pai=pai, s=sp, h=h))
b = I.call_function(LongPositionVector.encode, [lpv])
exc = z3.Or(*[c for c, n in I.raises])
s = z3.Solver(); s.add(exc); check("lpv.encode raises in domain", I, s, "sat")
s = z3.Solver(); s.add(lat >= 0, lon >= 0, exc); check("lpv.encode raises NE", I, s, "unsat")
dd = I.call_function(LongPositionVector.decode, [b])
print("decoded:", {k: type(v).__name__ for k, v in dd.fields.items()}, [k.__name__ for c,k in I.raises])
s = z3.Solver(); s.add(lat >= 0, lon >= 0, z3.Not(z3.And(dd.fields["latitude"] == lat, dd.fields["s"] == sp, dd.fields["pai"] == pai))); check("lpv roundtrip NE", I, s, "unsat")

I = make("int")
val = I.int_var("val", 0, 7000000)
lt = I.call_function(LT.set_value_in_millis, [LT(), val])
got = I.call_function(LT.get_value_in_millis, [lt])
s = z3.Solver(); s.add(got > val); check("LT <= requested", I, s, "unsat")
s = z3.Solver(); s.add(val >= 50, val <= 600000, got == 0); check("LT nonzero", I, s, "sat")
print("raises", [(k.__name__) for c, k in I.raises], I.calls)

I = make("int")
a = I.int_var("a", 0, 2**32-1); bb = I.int_var("b", 0, 2**32-1)
ta, tb = Obj(TST, dict(msec=a)), Obj(TST, dict(msec=bb))
gt_ab = I.to_bool(I.call_function(TST.__gt__, [ta, tb]))
gt_ba = I.to_bool(I.call_function(TST.__gt__, [tb, ta]))
s = z3.Solver(); s.add(a == bb, gt_ab); check("TST irreflexive", I, s, "unsat")
s = z3.Solver(); s.add(gt_ab, gt_ba); check("TST antisym", I, s, "unsat")
s = z3.Solver(); s.add(a != bb, z3.Not(gt_ab), z3.Not(gt_ba)); check("TST total", I, s, "unsat")
