import time, z3, sys
sys.path.insert(0, '/verif')
from vf.calls import make
from vf.values import Obj, EnumSym, SBytes
from flexstack.geonet.router import Router
from flexstack.geonet.mib import MIB
from flexstack.geonet.gn_address import GNAddress, M, ST, MID

mib = MIB(itsGnLocalGnAddr=GNAddress(m=M.GN_UNICAST, st=ST.PASSENGER_CAR, mid=MID(b"\x0a\x0b\x0c\x0d\x0e\x0f")))
R = Router(mib)
class LL: pass
ll = LL(); R.link_layer = ll
def cb(x): pass
R.indication_callback = cb

def run(L, real_table=False):
    I = make("bv", 512)
    if not real_table:
        I.stubs[id(R.location_table)] = lambda it, name, a, k, pc: (it.events.append((pc, "tbl." + name, a)), [] if name == "get_neighbours" else None)[1]
    I.stubs[id(ll)] = lambda it, name, a, k, pc: it.events.append((pc, "send", a))
    I.stubs[id(cb)] = lambda it, name, a, k, pc: it.events.append((pc, "indication", a))
    I.stubs[Router.gn_geometric_function_f] = lambda it, a, k, pc: z3.Real(it.fresh("F"))
    pkt = SBytes([z3.BitVec(f"b{i}", 8) for i in range(L)])
    t0 = time.time()
    I.call_function(Router.gn_data_indicate, [R, pkt])
    return I, pkt, time.time() - t0

for L in (0, 3, 4, 11, 12, 40, 46, 64):
    I, pkt, dt = run(L)
    classes = {}
    for c, k in I.raises:
        classes.setdefault(k.__name__, []).append(c)
    res = {}
    for name, conds in classes.items():
        s = z3.Solver(); s.add(z3.Or(*conds)); res[name] = str(s.check())
    ind = [e for e in I.events if e[1] == "indication"]
    snd = [e for e in I.events if e[1] == "send"]
    s = z3.Solver(); s.add(z3.Or(*[e[0] for e in ind]) if ind else z3.BoolVal(False)); ri = s.check()
    print(f"L={L}: interp {dt:.2f}s, escaping: {res}; indication reachable: {ri}; sends: {len(snd)}; fns: {len(I.calls)}")
